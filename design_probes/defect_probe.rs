#![allow(non_snake_case)]
use snow::{Builder, Error};
use std::panic::{catch_unwind, AssertUnwindSafe};

fn kp(name: &str) -> snow::Keypair { Builder::new(name.parse().unwrap()).generate_keypair().unwrap() }

#[test]
fn probe_xx_msg3_retry() {
    let name = "Noise_XX_25519_ChaChaPoly_SHA256";
    let ki = kp(name); let kr = kp(name);
    let mut i = Builder::new(name.parse().unwrap()).local_private_key(&ki.private).unwrap().build_initiator().unwrap();
    let mut r = Builder::new(name.parse().unwrap()).local_private_key(&kr.private).unwrap().build_responder().unwrap();
    let mut m = [0u8; 1024]; let mut p = [0u8; 1024];
    let n = i.write_message(b"", &mut m).unwrap(); r.read_message(&m[..n], &mut p).unwrap();
    let n = r.write_message(b"", &mut m).unwrap(); i.read_message(&m[..n], &mut p).unwrap();
    // failing write: buffer fits s+tag (48) but not payload+tag
    let mut small = [0u8; 60];
    let e = i.write_message(b"hello world", &mut small);
    println!("failed write -> {:?}", e);
    let n = i.write_message(b"hello world", &mut m).unwrap();
    let res = r.read_message(&m[..n], &mut p);
    println!("peer read after retry -> {:?}", res);
}

#[test]
fn probe_xx_msg2_buffer_panic() {
    let name = "Noise_XX_25519_ChaChaPoly_SHA256";
    let ki = kp(name); let kr = kp(name);
    for sz in 0..120usize {
        let mut i = Builder::new(name.parse().unwrap()).local_private_key(&ki.private).unwrap().build_initiator().unwrap();
        let mut r = Builder::new(name.parse().unwrap()).local_private_key(&kr.private).unwrap().build_responder().unwrap();
        let mut m = [0u8; 1024]; let mut p = [0u8; 1024];
        let n = i.write_message(b"", &mut m).unwrap(); r.read_message(&m[..n], &mut p).unwrap();
        let mut buf = vec![0u8; sz];
        let res = catch_unwind(AssertUnwindSafe(|| r.write_message(b"", &mut buf)));
        match res { Err(_) => println!("PANIC at out len {}", sz), Ok(_) => {} }
    }
}

#[test]
fn probe_builder_lengths() {
    let name = "Noise_XK_25519_ChaChaPoly_SHA256";
    for l in [0usize, 31, 32, 33, 56, 57, 65, 66, 100] {
        let key = vec![1u8; l];
        let res = catch_unwind(|| { Builder::new(name.parse().unwrap()).local_private_key(&key).unwrap().remote_public_key(&[2u8;32]).unwrap().build_initiator().map(|_| ()) });
        println!("local_private_key len {} -> {:?}", l, res.as_ref().map_err(|_| "PANIC"));
        let res = catch_unwind(|| { Builder::new(name.parse().unwrap()).local_private_key(&[1u8;32]).unwrap().remote_public_key(&key).unwrap().build_initiator().map(|_| ()) });
        println!("remote_public_key len {} -> {:?}", l, res.as_ref().map_err(|_| "PANIC"));
    }
}
