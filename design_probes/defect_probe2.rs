#![allow(non_snake_case)]
use snow::{Builder, params::*, resolvers::*, types::*, Error};
use std::sync::{Arc, Mutex};

#[cfg(feature = "use-p256")]
#[test]
fn probe_d4_p256_remote_static() {
    let name = "Noise_XX_P256_ChaChaPoly_SHA256";
    let ki = Builder::new(name.parse().unwrap()).generate_keypair().unwrap();
    let kr = Builder::new(name.parse().unwrap()).generate_keypair().unwrap();
    let mut i = Builder::new(name.parse().unwrap()).local_private_key(&ki.private).unwrap().build_initiator().unwrap();
    let mut r = Builder::new(name.parse().unwrap()).local_private_key(&kr.private).unwrap().build_responder().unwrap();
    let mut m = [0u8; 1024]; let mut p = [0u8; 1024];
    let n = i.write_message(b"", &mut m).unwrap(); r.read_message(&m[..n], &mut p).unwrap();
    let n = r.write_message(b"", &mut m).unwrap(); i.read_message(&m[..n], &mut p).unwrap();
    let n = i.write_message(b"", &mut m).unwrap(); r.read_message(&m[..n], &mut p).unwrap();
    let hs_len = i.get_remote_static().unwrap().len();
    let hs_eq = i.get_remote_static().unwrap() == &kr.public[..];
    let t = i.into_transport_mode().unwrap();
    println!("D4: handshake rs len {} (eq peer pub: {}), transport rs len {}", hs_len, hs_eq, t.get_remote_static().unwrap().len());
}

// recording cipher: logs (key, nonce, ad, plaintext) of every encrypt
struct RecCipher { inner: Box<dyn Cipher>, key: [u8; 32], log: Arc<Mutex<Vec<(Vec<u8>, u64, Vec<u8>, Vec<u8>)>>> }
impl Cipher for RecCipher {
    fn name(&self) -> &'static str { self.inner.name() }
    fn set(&mut self, key: &[u8; 32]) { self.key = *key; self.inner.set(key) }
    fn encrypt(&self, nonce: u64, ad: &[u8], pt: &[u8], out: &mut [u8]) -> usize {
        self.log.lock().unwrap().push((self.key.to_vec(), nonce, ad.to_vec(), pt.to_vec()));
        self.inner.encrypt(nonce, ad, pt, out)
    }
    fn decrypt(&self, nonce: u64, ad: &[u8], ct: &[u8], out: &mut [u8]) -> Result<usize, Error> { self.inner.decrypt(nonce, ad, ct, out) }
}
struct RecRes { log: Arc<Mutex<Vec<(Vec<u8>, u64, Vec<u8>, Vec<u8>)>>> }
impl CryptoResolver for RecRes {
    fn resolve_rng(&self) -> Option<Box<dyn Random>> { DefaultResolver.resolve_rng() }
    fn resolve_dh(&self, c: &DHChoice) -> Option<Box<dyn Dh>> { DefaultResolver.resolve_dh(c) }
    fn resolve_hash(&self, c: &HashChoice) -> Option<Box<dyn Hash>> { DefaultResolver.resolve_hash(c) }
    fn resolve_cipher(&self, c: &CipherChoice) -> Option<Box<dyn Cipher>> {
        Some(Box::new(RecCipher { inner: DefaultResolver.resolve_cipher(c)?, key: [0; 32], log: self.log.clone() }))
    }
}

#[test]
fn probe_d3_nonce_reuse() {
    let name = "Noise_XX_25519_ChaChaPoly_SHA256";
    let ki = Builder::new(name.parse().unwrap()).generate_keypair().unwrap();
    let kr = Builder::new(name.parse().unwrap()).generate_keypair().unwrap();
    let log = Arc::new(Mutex::new(Vec::new()));
    let mut i = Builder::with_resolver(name.parse().unwrap(), Box::new(RecRes { log: log.clone() })).local_private_key(&ki.private).unwrap().build_initiator().unwrap();
    let mut r = Builder::new(name.parse().unwrap()).local_private_key(&kr.private).unwrap().build_responder().unwrap();
    let mut m = [0u8; 1024]; let mut p = [0u8; 1024];
    let n = i.write_message(b"", &mut m).unwrap(); r.read_message(&m[..n], &mut p).unwrap();
    let n = r.write_message(b"", &mut m).unwrap(); i.read_message(&m[..n], &mut p).unwrap();
    let mut small = [0u8; 60];
    let _ = i.write_message(b"hello world", &mut small);
    let _ = i.write_message(b"hello world", &mut m).unwrap();
    let l = log.lock().unwrap();
    for (a, x) in l.iter().enumerate() { for y in l.iter().skip(a + 1) {
        if x.0 == y.0 && x.1 == y.1 && (x.2 != y.2 || x.3 != y.3) {
            println!("D3: (key {:02x}{:02x}.., nonce {}) used for two different encryptions: pt lens {} and {}", x.0[0], x.0[1], x.1, x.3.len(), y.3.len());
        } } }
    println!("D3: {} encryptions logged", l.len());
}
