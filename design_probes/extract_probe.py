import re,sys
def rd(p): return open('/repo/src/'+p).read()
def clean(s):
    s=re.sub(r'(?m)^//!.*\n','',s)
    s=re.sub(r'(?m)^#!\[.*\n','',s)
    s=re.sub(r'(?ms)^#\[cfg\(test\)\].*','',s)
    s=re.sub(r'(?ms)^impl fmt::Display for Error \{.*?^}\n','',s)
    s=re.sub(r'(?ms)^impl fmt::Debug for \w+ \{.*?^}\n','',s)
    s=re.sub(r'(?ms)^impl Debug for Builder<\'_> \{.*?^}\n','',s)
    s=s.replace('impl core::error::Error for Error {}','')
    s=s.replace('assert_eq!(ciphertext_len, ciphertext.len(), "unexpected ciphertext length for rekey");','crate::vassert(ciphertext_len == ciphertext.len());')
    s=s.replace('assert!(key.len() <= self.block_len(), "unexpectedly large key length for hmac");','crate::vassert(key.len() <= self.block_len());')
    s=s.replace('.map_err(|_| PatternProblem::InvalidPsk)','.map_err(|_e| PatternProblem::InvalidPsk)')
    s=re.sub(r'(?ms)^macro_rules! message_vec \{.*?^}\n', '''macro_rules! message_vec {
    ($($item:expr),*) => ({
        let token_groups: &[&[Token]] = &[$($item),*];
        message_vec_fn(token_groups)
    });
}
fn message_vec_fn(token_groups: &[&[Token]]) -> MessagePatterns {
        let mut vec: MessagePatterns = Vec::with_capacity(10);
        for group in token_groups {
            let mut inner = Vec::with_capacity(10);
            inner.extend_from_slice(group);
            vec.push(inner);
        }
        vec
}
''', s)
    s=s.replace('use rand_core::{CryptoRng, RngCore};\n','')
    s=s.replace('pub trait Random: CryptoRng + RngCore + Send + Sync {}','pub trait Random: Send + Sync { fn fill_bytes(&mut self, dest: &mut [u8]); }')
    return s
mods=[('constants','constants.rs'),('error','error.rs'),('utils','utils.rs'),('types','types.rs'),('cipherstate','cipherstate.rs'),('symmetricstate','symmetricstate.rs'),('handshakestate','handshakestate.rs'),('transportstate','transportstate.rs'),('stateless_transportstate','stateless_transportstate.rs')]
out=['''#![allow(unused_imports, dead_code)]
use vstd::prelude::*;
verus! {
pub fn vassert(b: bool) requires b {}
}
macro_rules! copy_slices {
    ($inslice:expr, $outslice:expr) => {
        $outslice[..$inslice.len()].copy_from_slice(&$inslice[..])
    };
}
macro_rules! static_slice {
    ($_type:ty: $($item:expr),*) => ({
        let s: &'static [$_type] = &[$($item),*];
        s
    });
}
pub use crate::error::Error;
''']
for m,f in mods:
    out.append('pub mod %s {\nuse vstd::prelude::*;\nverus! {\n%s\n} // verus!\n}\n'%(m,clean(rd(f))))
pm=clean(rd('params/mod.rs')).replace('mod patterns;\n','')
pm=pm.replace('impl FromStr for','#[verifier::external]\nimpl FromStr for')
pp=clean(rd('params/patterns.rs'))
m=re.search(r'(?ms)^pattern_enum! \{\n\s*HandshakePattern \{(.*?)\}\n\}\n',pp)
body=re.sub(r'//.*','',m.group(1))
variants=[v.strip() for v in body.replace('\n',' ').split(',') if v.strip()]
pp=pp.replace(m.group(0),'#[allow(missing_docs)]\n#[derive(Copy, Clone, PartialEq, Debug)]\npub enum HandshakePattern {\n'+',\n'.join(variants)+',\n}\n#[verifier::external]\npub const SUPPORTED_HANDSHAKE_PATTERNS: &\'static [HandshakePattern] = &['+','.join('HandshakePattern::'+v for v in variants)+'];\n#[verifier::external]\nimpl FromStr for HandshakePattern { type Err = Error; fn from_str(s: &str) -> Result<Self, Self::Err> { match s {'+' '.join('"%s" => Ok(HandshakePattern::%s),'%(v,v) for v in variants)+' _ => Err(PatternProblem::UnsupportedHandshakeType.into()) } } }\n')
pp=re.sub(r'(?ms)^macro_rules! pattern_enum \{.*?^}\n','',pp)
for t in ['HandshakeModifier','HandshakeModifierList','HandshakeChoice']:
    pp=pp.replace('impl FromStr for %s {'%t,'#[verifier::external]\nimpl FromStr for %s {'%t)
pp=pp.replace('    pub fn is_fallback(','    #[verifier::external]\n    pub fn is_fallback(')
pp=pp.replace('    fn parse_pattern_and_modifier(','    #[verifier::external]\n    fn parse_pattern_and_modifier(')

out.append('pub mod params {\nuse vstd::prelude::*;\npub mod patterns {\nuse vstd::prelude::*;\nverus! {\n%s\n} // verus!\n}\nverus! {\n%s\n} // verus!\n}\n'%(pp,pm))

b=clean(rd('builder.rs'))
b=b.replace('use subtle::ConstantTimeEq;\n','')
b=re.sub(r'(?m)^(    pub fn \w+\(mut self)', r'    #[verifier::external]\n\1', b)
b=b.replace('fn resolve_kem(_: Box<dyn CryptoResolver>, _: &mut HandshakeState)','fn resolve_kem(_a: Box<dyn CryptoResolver>, _b: &mut HandshakeState)')
b=re.sub(r'(?ms)^impl PartialEq for Keypair \{.*?^}\n','',b)
out.append('pub mod builder {\nuse vstd::prelude::*;\nverus! {\n%s\n} // verus!\n}\n'%b)
r=clean(rd('resolvers/mod.rs'))
r=re.sub(r'(?ms)^/// The default primitive resolver\.\n.*?mod ring;\n','',r)
r=re.sub(r'(?ms)^#\[cfg\(feature = "default-resolver"\)\]\npub use .*?;\n','',r)
r=re.sub(r'(?ms)^#\[cfg\(feature = "ring-resolver"\)\]\npub use .*?;\n','',r)
r=r.replace('Box<dyn CryptoResolver + Send>','Box<dyn CryptoResolver>')
out.append('pub mod resolvers {\nuse vstd::prelude::*;\nverus! {\n%s\n} // verus!\n}\n'%r)
out.append('fn main() {}\n')
open(sys.argv[1],'w').write('\n'.join(out))
