use vstd::prelude::*;
verus! {

pub assume_specification<T, F: FnOnce() -> Option<T>>[ Option::<T>::or_else ](opt: Option<T>, f: F) -> (r: Option<T>)
    requires opt.is_none() ==> f.requires(()),
    ensures opt.is_some() ==> r == opt,
            opt.is_none() ==> f.ensures((), r);

pub struct Rng { pub x: u8 }

pub trait CryptoResolver {
    spec fn has_rng(&self) -> bool;
    fn resolve_rng(&self) -> (r: Option<Box<Rng>>)
        ensures r.is_some() == self.has_rng();
}

pub struct FallbackResolver {
    pub preferred: Box<dyn CryptoResolver>,
    pub fallback: Box<dyn CryptoResolver>,
}

impl CryptoResolver for FallbackResolver {
    open spec fn has_rng(&self) -> bool { self.preferred.has_rng() || self.fallback.has_rng() }
    fn resolve_rng(&self) -> (r: Option<Box<Rng>>)
    {
        self.preferred.resolve_rng().or_else(|| -> (r2: Option<Box<Rng>>) ensures r2.is_some() == self.fallback.has_rng() { self.fallback.resolve_rng() })
    }
}

} // verus!
fn main() {}
