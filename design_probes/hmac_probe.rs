use vstd::prelude::*;
verus! {

pub const MAXHASHLEN: usize = 64;
pub const MAXBLOCKLEN: usize = 128;

pub fn vassert(b: bool) requires b {}

pub uninterp spec fn hash_fn(id: int, data: Seq<u8>) -> Seq<u8>;

pub open spec fn pad_block(key: Seq<u8>, block_len: int, c: u8) -> Seq<u8> {
    Seq::new(block_len as nat, |i: int| if i < key.len() { c ^ key[i] } else { c })
}

pub open spec fn spec_hmac(id: int, block_len: int, key: Seq<u8>, data: Seq<u8>) -> Seq<u8> {
    hash_fn(id, pad_block(key, block_len, 0x5c) + hash_fn(id, pad_block(key, block_len, 0x36) + data))
}

pub trait Hash {
    spec fn id(&self) -> int;
    spec fn buf(&self) -> Seq<u8>;
    spec fn spec_block_len(&self) -> int;
    spec fn spec_hash_len(&self) -> int;

    fn block_len(&self) -> (r: usize)
        ensures r == self.spec_block_len(), 64 <= r <= 128;

    fn hash_len(&self) -> (r: usize)
        ensures r == self.spec_hash_len(), 1 <= r <= 64, r <= self.spec_block_len();

    fn reset(&mut self)
        ensures final(self).buf() == Seq::<u8>::empty(), final(self).id() == old(self).id(),
          final(self).spec_block_len() == old(self).spec_block_len(), final(self).spec_hash_len() == old(self).spec_hash_len();

    fn input(&mut self, data: &[u8])
        ensures final(self).buf() == old(self).buf() + data@, final(self).id() == old(self).id(),
          final(self).spec_block_len() == old(self).spec_block_len(), final(self).spec_hash_len() == old(self).spec_hash_len();

    fn result(&mut self, out: &mut [u8])
        requires old(out)@.len() >= old(self).spec_hash_len()
        ensures final(self).id() == old(self).id(),
          final(self).spec_block_len() == old(self).spec_block_len(), final(self).spec_hash_len() == old(self).spec_hash_len(),
          final(out)@.len() == old(out)@.len(),
          hash_fn(old(self).id(), old(self).buf()).len() == old(self).spec_hash_len(),
          final(out)@.subrange(0, old(self).spec_hash_len()) == hash_fn(old(self).id(), old(self).buf()),
          final(out)@.subrange(old(self).spec_hash_len(), old(out)@.len() as int) == old(out)@.subrange(old(self).spec_hash_len(), old(out)@.len() as int);

    fn hmac(&mut self, key: &[u8], data: &[u8], out: &mut [u8])
        requires key@.len() <= old(self).spec_block_len(), old(out)@.len() >= old(self).spec_hash_len()
        ensures final(self).id() == old(self).id(),
          final(self).spec_block_len() == old(self).spec_block_len(), final(self).spec_hash_len() == old(self).spec_hash_len(),
          final(out)@.len() == old(out)@.len(),
          final(out)@.subrange(0, old(self).spec_hash_len()) == spec_hmac(old(self).id(), old(self).spec_block_len(), key@, data@),
          final(out)@.subrange(old(self).spec_hash_len(), old(out)@.len() as int) == old(out)@.subrange(old(self).spec_hash_len(), old(out)@.len() as int),
    {
        vassert(key.len() <= self.block_len());
        let block_len = self.block_len();
        let hash_len = self.hash_len();
        let mut ipad = [0x36_u8; MAXBLOCKLEN];
        let mut opad = [0x5c_u8; MAXBLOCKLEN];
        for count in 0..key.len()
            invariant key@.len() <= 128,
              forall|i: int| 0 <= i < count ==> ipad@[i] == 0x36u8 ^ key@[i],
              forall|i: int| count <= i < 128 ==> ipad@[i] == 0x36u8,
              forall|i: int| 0 <= i < count ==> opad@[i] == 0x5cu8 ^ key@[i],
              forall|i: int| count <= i < 128 ==> opad@[i] == 0x5cu8,
        {
            ipad[count] ^= key[count];
            opad[count] ^= key[count];
        }
        self.reset();
        self.input(&ipad[..block_len]);
        self.input(data);
        let mut inner_output = [0_u8; MAXHASHLEN];
        self.result(&mut inner_output);
        self.reset();
        self.input(&opad[..block_len]);
        self.input(&inner_output[..hash_len]);
        proof {
            assert(ipad@.subrange(0, block_len as int) =~= pad_block(key@, block_len as int, 0x36));
            assert(opad@.subrange(0, block_len as int) =~= pad_block(key@, block_len as int, 0x5c));
        }
        self.result(out);
    }
}

} // verus!
fn main() {}
