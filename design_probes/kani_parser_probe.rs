use crate::params::*;

#[kani::proof]
#[kani::unwind(10)]
fn parse_handshake_choice_len6() {
    let bytes: [u8; 6] = kani::any();
    let len: usize = kani::any();
    kani::assume(len <= 6);
    if let Ok(s) = core::str::from_utf8(&bytes[..len]) {
        let r: Result<HandshakeChoice, _> = s.parse();
        if let Ok(hc) = r {
            // accepted => starts with the canonical pattern name
            let name = hc.pattern.as_str();
            assert!(s.len() >= name.len());
            assert!(&s.as_bytes()[..name.len()] == name.as_bytes());
        }
    }
}
