#[cfg(kani)]
mod verif_kani {
    use super::*;

    fn no_barrier<T: ?Sized>(_v: &T) {}

    #[kani::proof]
    #[kani::unwind(70)]
    #[kani::stub(zeroize::optimization_barrier, no_barrier)]
    fn chachapoly_nonce_layout() {
        let key: [u8; 32] = kani::any();
        let nonce: u64 = kani::any();
        let ad: [u8; 1] = kani::any();
        let pt: [u8; 1] = kani::any();
        let mut c = CipherChaChaPoly::default();
        c.set(&key);
        let mut out = [0u8; 17];
        let n = c.encrypt(nonce, &ad, &pt, &mut out);
        assert!(n == 17);
        let mut nb = [0u8; 12];
        let mut i = 0; while i < 8 { nb[4 + i] = (nonce >> (8 * i)) as u8; i += 1; }
        let mut buf = pt;
        let tag = ChaCha20Poly1305::new(&key.into()).encrypt_in_place_detached(&nb.into(), &ad, &mut buf).unwrap();
        assert!(out[0] == buf[0]);
        assert!(out[1..17] == tag[..]);
        // decrypt: tampered tag is rejected and the output holds ciphertext, not plaintext
        let mut bad = out; bad[16] ^= 1;
        let mut dout = [0u8; 1];
        let r = c.decrypt(nonce, &ad, &bad, &mut dout);
        assert!(r.is_err());
        assert!(dout[0] == bad[0]);
    }
}
