use vstd::prelude::*;
verus! {

#[derive(Copy, Clone, PartialEq, Debug)]
pub enum DhToken { Ee, Es, Se, Ss }
#[derive(Copy, Clone, PartialEq, Debug)]
pub enum Token { E, S, Dh(DhToken), Psk(u8) }

pub enum Error { Input, Missing }

pub struct Sym { pub has_key: bool, pub n: u64 }
impl Sym {
    pub fn mix_key(&mut self) ensures final(self).has_key, final(self).n == 0 { self.has_key = true; self.n = 0; }
    pub fn has_key(&self) -> (r: bool) ensures r == self.has_key { self.has_key }
    pub fn enc(&mut self, pt: &[u8], out: &mut [u8]) -> (r: Result<usize, Error>)
        requires old(out)@.len() >= pt@.len() + (if old(self).has_key { 16int } else { 0 }),
        ensures final(self).has_key == old(self).has_key,
            final(out)@.len() == old(out)@.len(),
            r matches Ok(n) ==> n == pt@.len() + (if old(self).has_key { 16int } else { 0 }),
    {
        if self.has_key {
            if self.n == u64::MAX { return Err(Error::Missing); }
            self.n += 1;
            Ok(pt.len() + 16)
        } else { Ok(pt.len()) }
    }
}

pub open spec fn tok_len(t: Token, has_key: bool) -> (int, bool) {
    match t {
        Token::E => (32, has_key),
        Token::S => (if has_key { 48 } else { 32 }, has_key),
        Token::Dh(_) => (0, true),
        Token::Psk(_) => (0, true),
    }
}
pub open spec fn toks_len(ts: Seq<Token>, has_key: bool) -> (int, bool)
    decreases ts.len()
{
    if ts.len() == 0 { (0, has_key) } else {
        let (l, hk) = toks_len(ts.drop_last(), has_key);
        let (l2, hk2) = tok_len(ts.last(), hk);
        (l + l2, hk2)
    }
}

pub struct HS {
    pub sym: Sym,
    pub pubkey: [u8; 32],
    pub message_patterns: Vec<Vec<Token>>,
    pub pattern_position: usize,
    pub my_turn: bool,
}

impl HS {
    fn _write_message(&mut self, payload: &[u8], message: &mut [u8]) -> (r: Result<usize, Error>)
        ensures
            final(message)@.len() == old(message)@.len(),
            final(self).message_patterns == old(self).message_patterns,
            final(self).pattern_position == old(self).pattern_position,
            r matches Ok(n) ==> {
                let (l, hk) = toks_len(old(self).message_patterns@[old(self).pattern_position as int]@, old(self).sym.has_key);
                n == l + payload@.len() + (if hk { 16int } else { 0 }) && n <= 65535 && n <= old(message)@.len()
            },
    {
        if !self.my_turn {
            return Err(Error::Missing);
        } else if self.pattern_position >= self.message_patterns.len() {
            return Err(Error::Missing);
        }

        let mut byte_index = 0;
        let ghost toks = self.message_patterns@[self.pattern_position as int]@;
        let ghost hk0 = self.sym.has_key;
        for token in it: &self.message_patterns[self.pattern_position]
            invariant
                it.seq().len() == toks.len(), forall|i: int| 0 <= i < toks.len() ==> *it.seq()[i] == toks[i], 0 <= it.index() <= toks.len(),
                self.message_patterns == old(self).message_patterns,
                self.pattern_position == old(self).pattern_position,
                message@.len() == old(message)@.len(),
                byte_index <= message@.len(),
                toks_len(toks.take(it.index()), hk0) == (byte_index as int, self.sym.has_key),
        {
            proof {
                assert(toks.take(it.index() + 1).drop_last() =~= toks.take(it.index()));
            }
            match *token {
                Token::E => {
                    if byte_index + 32 > message.len() {
                        return Err(Error::Input);
                    }
                    let pubkey = &self.pubkey;
                    message[byte_index..byte_index + pubkey.len()].copy_from_slice(pubkey);
                    byte_index += pubkey.len();
                },
                Token::S => {
                    if byte_index + 32 + (if self.sym.has_key() { 16 } else { 0 }) > message.len() {
                        return Err(Error::Input);
                    }
                    byte_index += self
                        .sym
                        .enc(&self.pubkey, &mut message[byte_index..])?;
                },
                Token::Psk(n) => { self.sym.mix_key(); },
                Token::Dh(t) => {
                    self.sym.mix_key();
                },
            }
        }
        proof { assert(toks.take(toks.len() as int) =~= toks); }

        if byte_index + payload.len() + 16 > message.len() {
            return Err(Error::Input);
        }
        byte_index +=
            self.sym.enc(payload, &mut message[byte_index..])?;
        if byte_index > 65535 {
            return Err(Error::Input);
        }
        Ok(byte_index)
    }
}

} // verus!
fn main() {}
