use vstd::prelude::*;
pub mod vspec {
use vstd::prelude::*;
verus! {

pub assume_specification<T, F: FnOnce() -> Option<T>>[ Option::<T>::or_else ](opt: Option<T>, f: F) -> (r: Option<T>)
    requires opt.is_none() ==> f.requires(()),
    ensures opt.is_some() ==> r == opt,
            opt.is_none() ==> f.ensures((), r);

// ---- abstract primitives -------------------------------------------------
pub uninterp spec fn hash_fn(id: int, data: Seq<u8>) -> Seq<u8>;
pub uninterp spec fn aead_enc(id: int, k: Seq<u8>, n: u64, ad: Seq<u8>, pt: Seq<u8>) -> Seq<u8>;
pub uninterp spec fn aead_dec(id: int, k: Seq<u8>, n: u64, ad: Seq<u8>, ct: Seq<u8>) -> Option<Seq<u8>>;
pub uninterp spec fn dh_pub(id: int, sk: Seq<u8>) -> Seq<u8>;
pub uninterp spec fn dh_fn(id: int, sk: Seq<u8>, pk: Seq<u8>) -> Seq<u8>;

pub uninterp spec fn gen_sk(rng_state: int, did: int) -> Seq<u8>;
pub uninterp spec fn gen_next(rng_state: int) -> int;
pub open spec fn zeros(n: int) -> Seq<u8> { Seq::new(n as nat, |i: int| 0u8) }

// ---- RFC 2104 / Noise 4.3 ---------------------------------------------------
pub open spec fn pad_block(key: Seq<u8>, block_len: int, c: u8) -> Seq<u8> {
    Seq::new(block_len as nat, |i: int| if i < key.len() { c ^ key[i] } else { c })
}
pub open spec fn spec_hmac(id: int, bl: int, key: Seq<u8>, data: Seq<u8>) -> Seq<u8> {
    hash_fn(id, pad_block(key, bl, 0x5c) + hash_fn(id, pad_block(key, bl, 0x36) + data))
}
pub open spec fn hkdf1(id: int, bl: int, ck: Seq<u8>, ikm: Seq<u8>) -> Seq<u8> {
    spec_hmac(id, bl, spec_hmac(id, bl, ck, ikm), seq![1u8])
}
pub open spec fn hkdf2(id: int, bl: int, ck: Seq<u8>, ikm: Seq<u8>) -> Seq<u8> {
    spec_hmac(id, bl, spec_hmac(id, bl, ck, ikm), hkdf1(id, bl, ck, ikm) + seq![2u8])
}
pub open spec fn hkdf3(id: int, bl: int, ck: Seq<u8>, ikm: Seq<u8>) -> Seq<u8> {
    spec_hmac(id, bl, spec_hmac(id, bl, ck, ikm), hkdf2(id, bl, ck, ikm) + seq![3u8])
}
pub open spec fn spec_rekey(id: int, k: Seq<u8>) -> Seq<u8> {
    aead_enc(id, k, u64::MAX, Seq::<u8>::empty(), zeros(32)).subrange(0, 32)
}

// Verus prunes the `u8: Copy` impl fact in some crate contexts; array-repeat axioms need it.
pub proof fn use_copy<T: Copy>() {}
pub proof fn lemma_xor_zero(c: u8) ensures c ^ 0u8 == c { assert(c ^ 0u8 == c) by(bit_vector); }

pub proof fn lemma_pad_zero_ext(key: Seq<u8>, m: int, bl: int, c: u8)
    requires m >= 0, key.len() + m <= bl
    ensures pad_block(key + zeros(m), bl, c) =~= pad_block(key, bl, c)
{
    assert forall|i: int| 0 <= i < bl implies pad_block(key + zeros(m), bl, c)[i] == pad_block(key, bl, c)[i] by {
        lemma_xor_zero(c);
    }
}

} // verus!
}

verus! {
#[derive(Copy, Clone, PartialEq, Debug)]
pub enum DhToken { Ee, Es, Se, Ss }
#[derive(Copy, Clone, PartialEq, Debug)]
pub enum Token { E, S, Dh(DhToken), Psk(u8) }
pub struct SymView { pub h: Seq<u8>, pub ck: Seq<u8>, pub k: Seq<u8>, pub n: u64, pub has_key: bool, pub cs_has_key: bool }
pub struct Ids { pub hid: int, pub hl: int, pub bl: int, pub cid: int }

pub struct HsView {
    pub ids: Ids, pub did: int, pub pl: int, pub dl: int,
    pub sym: SymView,
    pub s_on: bool, pub s_sk: Seq<u8>,
    pub e_on: bool, pub e_sk: Seq<u8>,
    pub rs_on: bool, pub rs: Seq<u8>,
    pub re_on: bool, pub re: Seq<u8>,
    pub initiator: bool, pub is_psk: bool, pub fixed: bool, pub rng: int,
    pub psks: Seq<Option<Seq<u8>>>,
}
// ---- Noise rev 34, 5.2 (on the abstract symmetric state; has_key is snow's explicit flag) ----
pub open spec fn ns_mix_hash(ids: Ids, v: SymView, data: Seq<u8>) -> SymView {
    SymView { h: crate::vspec::hash_fn(ids.hid, v.h + data), ..v }
}
pub open spec fn ns_mix_key(ids: Ids, v: SymView, ikm: Seq<u8>) -> SymView {
    SymView { ck: crate::vspec::hkdf1(ids.hid, ids.bl, v.ck, ikm),
              k: crate::vspec::hkdf2(ids.hid, ids.bl, v.ck, ikm).subrange(0, 32),
              n: 0, has_key: true, cs_has_key: true, ..v }
}
pub open spec fn ns_mix_key_and_hash(ids: Ids, v: SymView, ikm: Seq<u8>) -> SymView {
    SymView { ck: crate::vspec::hkdf1(ids.hid, ids.bl, v.ck, ikm),
              h: crate::vspec::hash_fn(ids.hid, v.h + crate::vspec::hkdf2(ids.hid, ids.bl, v.ck, ikm)),
              k: crate::vspec::hkdf3(ids.hid, ids.bl, v.ck, ikm).subrange(0, 32),
              n: 0, cs_has_key: true, ..v }
}
pub open spec fn ns_ct(ids: Ids, v: SymView, pt: Seq<u8>) -> Seq<u8> {
    if v.has_key { crate::vspec::aead_enc(ids.cid, v.k, v.n, v.h, pt) } else { pt }
}
pub open spec fn ns_encrypt_and_hash(ids: Ids, v: SymView, pt: Seq<u8>) -> Option<(SymView, Seq<u8>)> {
    if v.has_key && v.n == u64::MAX { None } else {
        let ct = ns_ct(ids, v, pt);
        Some((SymView { h: crate::vspec::hash_fn(ids.hid, v.h + ct), n: if v.has_key { (v.n + 1) as u64 } else { v.n }, ..v }, ct))
    }
}
// ---- Noise rev 34, 5.3 WriteMessage, token by token ----
pub open spec fn ns_dh(v: HsView, t: DhToken) -> Option<Seq<u8>> {
    let (loc_on, loc_sk, rem_on, rem) = match (t, v.initiator) {
        (DhToken::Ee, _) => (v.e_on, v.e_sk, v.re_on, v.re),
        (DhToken::Ss, _) => (v.s_on, v.s_sk, v.rs_on, v.rs),
        (DhToken::Se, true) | (DhToken::Es, false) => (v.s_on, v.s_sk, v.re_on, v.re),
        (DhToken::Es, true) | (DhToken::Se, false) => (v.e_on, v.e_sk, v.rs_on, v.rs),
    };
    if loc_on && rem_on { Some(crate::vspec::dh_fn(v.did, loc_sk, rem)) } else { None }
}
pub open spec fn ns_write_token(v: HsView, t: Token) -> Option<(HsView, Seq<u8>)> {
    match t {
        Token::E => {
            let sk = if v.fixed { v.e_sk } else { crate::vspec::gen_sk(v.rng, v.did) };
            let rng = if v.fixed { v.rng } else { crate::vspec::gen_next(v.rng) };
            let pk = crate::vspec::dh_pub(v.did, sk);
            let s1 = ns_mix_hash(v.ids, v.sym, pk);
            let s2 = if v.is_psk { ns_mix_key(v.ids, s1, pk) } else { s1 };
            Some((HsView { e_sk: sk, e_on: true, rng: rng, sym: s2, ..v }, pk))
        },
        Token::S => {
            if !v.s_on { None } else {
                match ns_encrypt_and_hash(v.ids, v.sym, crate::vspec::dh_pub(v.did, v.s_sk)) {
                    None => None,
                    Some((s1, ct)) => Some((HsView { sym: s1, ..v }, ct)),
                }
            }
        },
        Token::Psk(n) => {
            if n >= 10 { None } else {
                match v.psks[n as int] {
                    None => None,
                    Some(psk) => Some((HsView { sym: ns_mix_key_and_hash(v.ids, v.sym, psk), ..v }, Seq::<u8>::empty())),
                }
            }
        },
        Token::Dh(t) => {
            match ns_dh(v, t) {
                None => None,
                Some(out) => Some((HsView { sym: ns_mix_key(v.ids, v.sym, out), ..v }, Seq::<u8>::empty())),
            }
        },
    }
}
pub open spec fn ns_write_tokens(v: HsView, ts: Seq<Token>) -> Option<(HsView, Seq<u8>)>
    decreases ts.len()
{
    if ts.len() == 0 { Some((v, Seq::<u8>::empty())) } else {
        match ns_write_tokens(v, ts.drop_last()) {
            None => None,
            Some((v1, o1)) => match ns_write_token(v1, ts.last()) {
                None => None,
                Some((v2, o2)) => Some((v2, o1 + o2)),
            },
        }
    }
}
pub open spec fn ns_write_message(v: HsView, ts: Seq<Token>, payload: Seq<u8>) -> Option<(HsView, Seq<u8>)> {
    match ns_write_tokens(v, ts) {
        None => None,
        Some((v1, o1)) => match ns_encrypt_and_hash(v1.ids, v1.sym, payload) {
            None => None,
            Some((s2, ct)) => Some((HsView { sym: s2, ..v1 }, o1 + ct)),
        },
    }
}

// ---- read side (Noise 5.3 ReadMessage) ----
pub open spec fn ns_decrypt_and_hash(ids: Ids, v: SymView, ct: Seq<u8>) -> Option<(SymView, Seq<u8>)> {
    if v.has_key {
        if v.n == u64::MAX { None } else {
            match crate::vspec::aead_dec(ids.cid, v.k, v.n, v.h, ct) {
                None => None,
                Some(pt) => Some((SymView { h: crate::vspec::hash_fn(ids.hid, v.h + ct), n: (v.n + 1) as u64, ..v }, pt)),
            }
        }
    } else {
        Some((SymView { h: crate::vspec::hash_fn(ids.hid, v.h + ct), ..v }, ct))
    }
}
// returns (new view, number of input bytes consumed)
pub open spec fn ns_read_token(v: HsView, t: Token, input: Seq<u8>) -> Option<(HsView, int)> {
    match t {
        Token::E => {
            if input.len() < v.pl { None } else {
                let re = input.subrange(0, v.pl);
                let s1 = ns_mix_hash(v.ids, v.sym, re);
                let s2 = if v.is_psk { ns_mix_key(v.ids, s1, re) } else { s1 };
                Some((HsView { re: re, re_on: true, sym: s2, ..v }, v.pl))
            }
        },
        Token::S => {
            let n = v.pl + (if v.sym.has_key { 16int } else { 0int });
            if input.len() < n { None } else {
                match ns_decrypt_and_hash(v.ids, v.sym, input.subrange(0, n)) {
                    None => None,
                    Some((s1, pt)) => Some((HsView { rs: pt, rs_on: true, sym: s1, ..v }, n)),
                }
            }
        },
        Token::Psk(n) => match ns_write_token(v, t) { None => None, Some((v1, _o)) => Some((v1, 0)) },
        Token::Dh(d) => match ns_write_token(v, t) { None => None, Some((v1, _o)) => Some((v1, 0)) },
    }
}

// ---- axioms (named; each is an assumption listed in evidence) ----
#[verifier::external_body]
pub proof fn ax_aead_inv(id: int, k: Seq<u8>, n: u64, ad: Seq<u8>, pt: Seq<u8>)
    ensures crate::vspec::aead_dec(id, k, n, ad, crate::vspec::aead_enc(id, k, n, ad, pt)) == Some(pt),
        crate::vspec::aead_enc(id, k, n, ad, pt).len() == pt.len() + 16 {}
#[verifier::external_body]
pub proof fn ax_dh_comm(id: int, a: Seq<u8>, b: Seq<u8>)
    ensures crate::vspec::dh_fn(id, a, crate::vspec::dh_pub(id, b)) == crate::vspec::dh_fn(id, b, crate::vspec::dh_pub(id, a)) {}
#[verifier::external_body]
pub proof fn ax_pub_len(id: int, sk: Seq<u8>, pl: int)
    ensures crate::vspec::dh_pub(id, sk).len() == pl {}

// writer w and reader r are in step
pub open spec fn mirror(w: HsView, r: HsView) -> bool {
    &&& w.ids == r.ids && w.did == r.did && w.pl == r.pl && w.dl == r.dl
    &&& w.sym == r.sym
    &&& w.initiator != r.initiator
    &&& w.is_psk == r.is_psk && w.psks == r.psks
    &&& w.e_on == r.re_on && (w.e_on ==> r.re == crate::vspec::dh_pub(w.did, w.e_sk))
    &&& r.e_on == w.re_on && (r.e_on ==> w.re == crate::vspec::dh_pub(w.did, r.e_sk))
    &&& (r.rs_on ==> w.s_on && r.rs == crate::vspec::dh_pub(w.did, w.s_sk))
    &&& (w.rs_on ==> r.s_on && w.rs == crate::vspec::dh_pub(w.did, r.s_sk))
}

pub proof fn lemma_token_mirror(w: HsView, r: HsView, t: Token, rest: Seq<u8>)
    requires mirror(w, r), ns_write_token(w, t) is Some, w.pl >= 1,
        // key availability on the reading side for static-key DH (supplied by the pattern's validity)
        t matches Token::Dh(DhToken::Ss) ==> r.rs_on && r.s_on,
        t matches Token::Dh(DhToken::Se) ==> (if w.initiator { r.rs_on } else { r.s_on }),
        t matches Token::Dh(DhToken::Es) ==> (if w.initiator { r.s_on } else { r.rs_on }),
    ensures ({
        let (w1, out) = ns_write_token(w, t).unwrap();
        &&& ns_read_token(r, t, out + rest) matches Some((r1, used)) && used == out.len() && mirror(w1, r1)
    })
{
    let (w1, out) = ns_write_token(w, t).unwrap();
    match t {
        Token::E => {
            let sk = if w.fixed { w.e_sk } else { crate::vspec::gen_sk(w.rng, w.did) };
            ax_pub_len(w.did, sk, w.pl);
            assert((out + rest).subrange(0, w.pl) =~= out);
        },
        Token::S => {
            let pk = crate::vspec::dh_pub(w.did, w.s_sk);
            ax_pub_len(w.did, w.s_sk, w.pl);
            if w.sym.has_key { ax_aead_inv(w.ids.cid, w.sym.k, w.sym.n, w.sym.h, pk); }
            assert((out + rest).subrange(0, out.len() as int) =~= out);
        },
        Token::Psk(n) => { assert(out + rest =~= rest); },
        Token::Dh(d) => {
            ax_dh_comm(w.did, w.e_sk, r.e_sk); ax_dh_comm(w.did, w.e_sk, r.s_sk);
            ax_dh_comm(w.did, w.s_sk, r.e_sk); ax_dh_comm(w.did, w.s_sk, r.s_sk);
        },
    }
}
}
fn main() {}
