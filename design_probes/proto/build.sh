#!/bin/bash
# usage: build.sh out.rs spec1.vspec ...
set -e
python3 extract.py x_extracted.rs > /dev/null
python3 - <<PY
s=open('x_extracted.rs').read()
s=s.replace('//@SPEC-MODULES@', open('c/spec_prims.rs').read())
open('x_extracted.rs','w').write(s)
PY
out=$1; shift
python3 weaver.py x_extracted.rs $out "$@"
