#!/usr/bin/env python3
"""Prototype extractor (design-phase probe): inline /repo/src into one Verus file by rules R1-R14."""
import re, sys, os

REPO = os.environ.get('VP_REPO', '/repo')
counts = {}

def rd(p):
    return open(os.path.join(REPO, 'src', p)).read()

def sub(rule, pat, repl, s, flags=0, expect=None):
    s2, n = re.subn(pat, repl, s, flags=flags)
    counts[rule] = counts.get(rule, 0) + n
    if expect is not None and n != expect:
        print('ANCHOR-LOST rule %s: expected %d sites, found %d (%s)' % (rule, expect, n, pat[:50]))
        sys.exit(2)
    return s2

def clean(s):
    s = sub('R2-innerdoc', r'(?m)^//!.*\n', '', s)
    s = sub('R2-innerattr', r'(?m)^#!\[.*\n', '', s)
    s = sub('R2-tests', r'(?ms)^#\[cfg\(test\)\].*', '', s)
    s = sub('R2-display', r'(?ms)^impl fmt::Display for Error \{.*?^}\n', '', s)
    s = sub('R2-debug', r'(?ms)^impl fmt::Debug for \w+ \{.*?^}\n', '', s)
    s = sub('R2-debug', r"(?ms)^impl Debug for Builder<'_> \{.*?^}\n", '', s)
    s = s.replace('impl core::error::Error for Error {}', '')
    # R4 asserts
    s = sub('R4', r'assert_eq!\(([^,;]+), ([^,;]+), "[^"]*"\);', r'crate::vassert(\1 == \2);', s)
    s = sub('R4', r'assert!\(([^;]+?), "[^"]*"\);', r'crate::vassert(\1);', s)
    # R5/R6 foreign crates
    s = sub('R6', r'(?m)^use rand_core::.*;\n', '', s)
    s = sub('R6', r'(?m)^use subtle::.*;\n', '', s)
    s = sub('R5', r'pub trait Random: CryptoRng \+ RngCore \+ Send \+ Sync \{\}', 'pub trait Random: Send + Sync {}', s)
    # R11
    s = sub('R11-closure', r'\|_\|', '|_e|', s)
    s = s.replace('Box<dyn CryptoResolver + Send>', 'Box<dyn CryptoResolver>')
    # R8 visibility
    s = sub('R8', r'pub\(crate\)', 'pub', s)
    return s

def pub_fields(s):
    """R8: make private named struct fields pub (inside `struct X {` blocks only)"""
    out = []
    i = 0
    for m in re.finditer(r'(?m)^(pub )?struct \w+(<[^>]*>)? \{\n', s):
        j = s.index('\n}', m.end())
        body = s[m.end():j]
        body2 = re.sub(r'(?m)^(\s+)(?!pub |//|#)(\w+\s*:)', r'\1pub \2', body)
        counts['R8-fields'] = counts.get('R8-fields', 0) + len(re.findall(r'(?m)^(\s+)(?!pub |//|#)(\w+\s*:)', body))
        out.append(s[i:m.end()])
        out.append(body2)
        i = j
    out.append(s[i:])
    return ''.join(out)

PRELUDE = '''#![allow(unused_imports, dead_code, unused_variables, unused_mut)]
use vstd::prelude::*;
verus! {
pub fn vassert(b: bool) requires b {}
}
macro_rules! copy_slices {
    ($inslice:expr, $outslice:expr) => {
        $outslice[..$inslice.len()].copy_from_slice(&$inslice[..])
    };
}
macro_rules! static_slice {
    ($_type:ty: $($item:expr),*) => ({
        let s: &'static [$_type] = &[$($item),*];
        s
    });
}
pub use crate::error::Error;
//@SPEC-MODULES@
'''

def wrap(name, body):
    return 'pub mod %s {\nuse vstd::prelude::*;\nverus! {\n%s\n} // verus!\n}\n' % (name, body)

def main(outp):
    out = [PRELUDE]
    for m in ['constants', 'error', 'utils', 'types', 'cipherstate', 'symmetricstate', 'handshakestate',
              'transportstate', 'stateless_transportstate']:
        out.append(wrap(m, pub_fields(clean(rd(m + '.rs')))))
    # params
    pm = clean(rd('params/mod.rs')).replace('mod patterns;\n', '')
    pm = sub('R12', r'impl FromStr for', '#[verifier::external]\nimpl FromStr for', pm)
    pp = clean(rd('params/patterns.rs'))
    m = re.search(r'(?ms)^pattern_enum! \{\n\s*HandshakePattern \{(.*?)\}\n\}\n', pp)
    if not m:
        print('ANCHOR-LOST R7'); sys.exit(2)
    variants = [v.strip() for v in re.sub(r'//.*', '', m.group(1)).replace('\n', ' ').split(',') if v.strip()]
    counts['R7-variants'] = len(variants)
    enum = ('#[allow(missing_docs)]\n#[derive(Copy, Clone, PartialEq, Debug)]\npub enum HandshakePattern {\n'
            + ',\n'.join(variants) + ',\n}\n'
            + "#[verifier::external]\npub const SUPPORTED_HANDSHAKE_PATTERNS: &'static [HandshakePattern] = &["
            + ','.join('HandshakePattern::' + v for v in variants) + '];\n'
            + '#[verifier::external]\nimpl FromStr for HandshakePattern { type Err = Error; fn from_str(s: &str) -> Result<Self, Self::Err> { match s {'
            + ' '.join('"%s" => Ok(HandshakePattern::%s),' % (v, v) for v in variants)
            + ' _ => Err(PatternProblem::UnsupportedHandshakeType.into()) } } }\n'
            + '#[verifier::external]\nimpl HandshakePattern { pub fn as_str(self) -> &\'static str { match self {'
            + ' '.join('HandshakePattern::%s => "%s",' % (v, v) for v in variants) + ' } } }\n')
    pp = pp.replace(m.group(0), enum)
    pp = sub('R7', r'(?ms)^macro_rules! pattern_enum \{.*?^}\n', '', pp, expect=1)
    pp = sub('R3', r'(?ms)^macro_rules! message_vec \{.*?^}\n', '''macro_rules! message_vec {
    ($($item:expr),*) => ({
        let token_groups: &[&[Token]] = &[$($item),*];
        message_vec_fn(token_groups)
    });
}
fn message_vec_fn(token_groups: &[&[Token]]) -> MessagePatterns {
        let mut vec: MessagePatterns = Vec::with_capacity(10);
        for group in token_groups {
            let mut inner = Vec::with_capacity(10);
            inner.extend_from_slice(group);
            vec.push(inner);
        }
        vec
}
''', pp, expect=1)
    for t in ['HandshakeModifier', 'HandshakeModifierList', 'HandshakeChoice']:
        pp = sub('R12', r'impl FromStr for %s \{' % t, '#[verifier::external]\nimpl FromStr for %s {' % t, pp, expect=1)
    pp = sub('R12', r'    fn parse_pattern_and_modifier\(', '    #[verifier::external]\n    fn parse_pattern_and_modifier(', pp, expect=1)
    pp = sub('R12', r'    pub fn is_fallback\(', '    #[verifier::external]\n    pub fn is_fallback(', pp, expect=1)
    pp = pub_fields(pp)
    pm = pub_fields(pm)
    out.append('pub mod params {\nuse vstd::prelude::*;\npub mod patterns {\nuse vstd::prelude::*;\nverus! {\n%s\n} // verus!\n}\nverus! {\n%s\n} // verus!\n}\n' % (pp, pm))
    # builder
    b = clean(rd('builder.rs'))
    b = sub('R2-keypair-eq', r'(?ms)^impl PartialEq for Keypair \{.*?^}\n', '', b, expect=1)
    b = sub('R11-params', r'fn resolve_kem\(_: Box<dyn CryptoResolver>, _: &mut HandshakeState\)',
            'fn resolve_kem(_a0: Box<dyn CryptoResolver>, _a1: &mut HandshakeState)', b, expect=1)
    # R9 enumerate
    b = sub('R9', r'for \(i, psk\) in self\.psks\.iter\(\)\.enumerate\(\) \{', 'for i in 0..self.psks.len() { let psk = &self.psks[i];', b, expect=1)
    # R10 mut self
    def r10(mo):
        head, body = mo.group(1), mo.group(2)
        counts['R10'] = counts.get('R10', 0) + 1
        return head.replace('(mut self', '(self') + ' {\n        let mut this = self;' + re.sub(r'\bself\b', 'this', body) + '\n    }\n'
    b = re.sub(r'(?ms)^(    pub fn \w+\(mut self[^{]*?) \{(.*?)\n    \}\n', r10, b)
    b = pub_fields(b)
    out.append(wrap('builder', b))
    r = clean(rd('resolvers/mod.rs'))
    r = sub('R2-resolvers', r'(?ms)^/// The default primitive resolver\.\n.*?mod ring;\n', '', r, expect=1)
    r = sub('R2-resolvers', r'(?ms)^#\[cfg\(feature = "(default|ring)-resolver"\)\]\npub use .*?;\n', '', r, expect=2)
    r = pub_fields(r)
    # R14 skeleton of the built-in resolver (bodies live in third-party crates: external_body)
    r += '''
pub struct DefaultResolver;
impl CryptoResolver for DefaultResolver {
    #[verifier::external_body] fn resolve_rng(&self) -> Option<Box<dyn Random>> { unimplemented!() }
    #[verifier::external_body] fn resolve_dh(&self, choice: &DHChoice) -> Option<Box<dyn Dh>> { unimplemented!() }
    #[verifier::external_body] fn resolve_hash(&self, choice: &HashChoice) -> Option<Box<dyn Hash>> { unimplemented!() }
    #[verifier::external_body] fn resolve_cipher(&self, choice: &CipherChoice) -> Option<Box<dyn Cipher>> { unimplemented!() }
}
'''
    out.append(wrap('resolvers', r))
    out.append('fn main() {}\n')
    open(outp, 'w').write('\n'.join(out))
    print('extracted; rule counts:', counts)

if __name__ == '__main__':
    main(sys.argv[1])
