#!/bin/bash
# usage: vrun.sh file.rs [extra verus args]; prints compact error list
f=$1; shift
verus $f --cfg 'feature="std"' --cfg 'feature="default-resolver"' --triggers-mode silent --multiple-errors 30 "$@" 2>&1 | python3 -c "
import sys,re
lines=sys.stdin.read().split('\n')
i=0
while i<len(lines):
    l=lines[i]
    if l.startswith('error') or l.startswith('verification results'):
        loc=''
        for j in range(i+1,min(i+4,len(lines))):
            m=re.match(r'\s+--> (\S+)',lines[j])
            if m: loc=m.group(1); break
        src=''
        for j in range(i+1,min(i+8,len(lines))):
            m=re.match(r'\s*\d+ \|\s?(.*)',lines[j])
            if m: src=m.group(1).strip()[:110]; break
        print(l[:90],'|',loc,'|',src)
    i+=1
"
