#!/usr/bin/env python3
"""Prototype weaver (design-phase probe): attach contracts from a .vspec file to the
mechanically extracted crate text.  Anchors are structural: module, impl/trait header,
fn name, loop ordinal, statement text ordinal.  Never edits executable tokens."""
import re, sys

class AnchorLost(Exception):
    pass

def match_brace(s, i):
    """s[i] == '{' -> index of matching '}' (ignores braces in strings/comments/char literals crudely)"""
    assert s[i] == '{', s[i:i+20]
    depth = 0
    j = i
    n = len(s)
    while j < n:
        c = s[j]
        if c == '/' and s[j:j+2] == '//':
            j = s.index('\n', j)
            continue
        if c == '/' and s[j:j+2] == '/*':
            j = s.index('*/', j) + 2
            continue
        if c == '"':
            j += 1
            while s[j] != '"':
                if s[j] == '\\':
                    j += 1
                j += 1
        elif c == "'" :
            # char literal or lifetime: treat 'x' / '\n' as literal
            m = re.match(r"'(\\.|[^\\'])'", s[j:])
            if m:
                j += m.end() - 1
        elif c == '{':
            depth += 1
        elif c == '}':
            depth -= 1
            if depth == 0:
                return j
        j += 1
    raise AnchorLost('unbalanced braces')

def find_block(s, header, start=0, end=None):
    """find `header` text (exact, up to whitespace normalisation at ends) followed by '{' ; return (hdr_start, open, close)"""
    end = len(s) if end is None else end
    idx = s.find(header, start, end)
    if idx < 0:
        raise AnchorLost('block header not found: %r' % header)
    if s.find(header, idx + 1, end) >= 0 and not header.startswith('pub mod'):
        # ambiguous headers are allowed only if caller narrows the range; report
        pass
    o = s.index('{', idx + len(header) - 1) if header.rstrip().endswith('{') else s.index('{', idx + len(header))
    if header.rstrip().endswith('{'):
        o = idx + len(header.rstrip()) - 1
    c = match_brace(s, o)
    return idx, o, c

def find_fn(s, name, start, end):
    """locate `fn name` (followed by ( or <) at brace depth 1 relative to [start,end) ; return (fn_kw, sig_end_brace_or_semicolon, body_close or None)"""
    pat = re.compile(r'\bfn\s+' + re.escape(name) + r'\s*[(<]')
    for m in pat.finditer(s, start, end):
        # find end of signature: first '{' or ';' at paren depth 0
        j = m.end() - 1
        depth = 0
        while j < end:
            c = s[j]
            if c in '([':
                depth += 1
            elif c in ')]':
                depth -= 1
            elif depth == 0 and c in '{;':
                break
            j += 1
        if s[j] == '{':
            return m.start(), j, match_brace(s, j)
        return m.start(), j, None
    raise AnchorLost('fn not found: %s' % name)

class Edit:
    def __init__(self, pos, text, order=0):
        self.pos, self.text, self.order = pos, text, order

def parse_vspec(text):
    """very small format:
    @fn <mod path> | <block header or -> | <fn name>
    ret <binder>                      (optional)
    spec: | ...lines...  (requires/ensures clause text, inserted verbatim before the body / ';')
    @loop <k>  ...lines (invariant text inserted after the loop header)
    @iter <k> <name>   (name the k-th for-loop's ghost iterator)
    @hint after|before <k> :: <statement text>  ...lines
    @closure <k> <binder> <type> :: ensures text
    @items <mod path> | <block header or ->  ...lines (ghost items appended at the start of the block)
    """
    entries = []
    cur = None
    sub = None
    for line in text.split('\n'):
        if line.startswith('@fn ') or line.startswith('@items '):
            kind, rest = line.split(' ', 1)
            parts = [p.strip() for p in rest.split('|')]
            cur = {'kind': kind[1:], 'mod': parts[0], 'block': parts[1] if len(parts) > 1 else '-',
                   'name': parts[2] if len(parts) > 2 else None, 'ret': None, 'spec': [], 'subs': [], 'lines': []}
            entries.append(cur)
            sub = None
        elif line.startswith('ret ') and cur is not None and sub is None:
            cur['ret'] = line[4:].strip()
        elif line.startswith('attr ') and cur is not None and sub is None:
            cur['attr'] = line[5:].strip()
        elif line.startswith('@loop ') or line.startswith('@iter ') or line.startswith('@hint ') or line.startswith('@closure '):
            sub = {'head': line, 'lines': []}
            cur['subs'].append(sub)
        elif line.startswith('@end'):
            sub = None
        else:
            if sub is not None:
                sub['lines'].append(line)
            elif cur is not None:
                (cur['spec'] if cur['kind'] == 'fn' else cur['lines']).append(line)
    return entries

def mod_range(s, modpath):
    start, end = 0, len(s)
    for m in modpath.split('::'):
        if not m or m == 'crate':
            continue
        _, o, c = find_block(s, 'pub mod %s {' % m, start, end)
        start, end = o + 1, c
    # narrow to the module's own verus!{ } block (depth 0 inside the module)
    j = start
    depth = 0
    while j < end:
        if s.startswith('verus! {', j) and depth == 0:
            o = j + len('verus! ')
            return o + 1, match_brace(s, o)
        if s[j] == '{':
            j = match_brace(s, j)
        j += 1
    return start, end

def loops_in(s, a, b):
    """positions of for/while/loop headers in [a,b): returns list of (kw_start, open_brace)"""
    res = []
    for m in re.finditer(r'(?m)^\s*(for\s.+?\sin\s|while\s|loop\s*\{)', s[a:b]):
        ks = a + m.start() + (len(m.group(0)) - len(m.group(0).lstrip()))
        # header ends at first '{' at paren depth 0
        j = a + m.end() - 1 if m.group(1).startswith('loop') else a + m.end()
        depth = 0
        while True:
            c = s[j]
            if c in '([':
                depth += 1
            elif c in ')]':
                depth -= 1
            elif c == '{' and depth == 0:
                break
            j += 1
        res.append((ks, j))
    return res

def weave(src, vspec_text):
    entries = parse_vspec(vspec_text)
    edits = []
    report = []
    for e in entries:
        ms, me = mod_range(src, e['mod'])
        bs, be = ms, me
        if e['block'] != '-':
            _, o, c = find_block(src, e['block'], ms, me)
            bs, be = o + 1, c
        if e['kind'] == 'items':
            edits.append(Edit(bs, '\n' + '\n'.join(e['lines']) + '\n'))
            report.append(('items', e['mod'], e['block']))
            continue
        kw, sig_end, body_close = find_fn(src, e['name'], bs, be)
        sig = src[kw:sig_end]
        if e.get('attr'):
            edits.append(Edit(kw, e['attr'] + ' ', -1))
        # return binder
        if e['ret']:
            m = re.search(r'\)\s*->\s*', sig)
            if not m:
                raise AnchorLost('no return type on %s' % e['name'])
            # the return type runs from m.end() to the end of sig (stripped)
            rt_start = kw + m.end()
            rt = src[rt_start:sig_end].rstrip()
            edits.append(Edit(rt_start, '(%s: ' % e['ret'], 0))
            edits.append(Edit(rt_start + len(rt), ')', 1))
        spec = '\n'.join(e['spec']).rstrip()
        if spec.strip():
            edits.append(Edit(sig_end, '\n' + spec + '\n', 2))
        if body_close is None:
            report.append(('fn-decl', e['mod'], e['block'], e['name']))
            continue
        lps = loops_in(src, sig_end, body_close)
        for sub in e['subs']:
            head = sub['head']
            body = '\n'.join(sub['lines']).rstrip()
            if head.startswith('@loop '):
                k = int(head.split()[1])
                if k > len(lps):
                    raise AnchorLost('loop %d of %s' % (k, e['name']))
                edits.append(Edit(lps[k - 1][1], '\n' + body + '\n', 5))
            elif head.startswith('@iter '):
                _, k, nm = head.split()
                ks, ob = lps[int(k) - 1]
                m = re.match(r'for\s+(.+?)\s+in\s+', src[ks:ob])
                edits.append(Edit(ks + m.end(), nm + ': ', 4))
            elif head.strip() == '@hint start':
                edits.append(Edit(sig_end + 1, '\n' + body + '\n', 3))
            elif head.startswith('@hint '):
                m = re.match(r'@hint (after|before) (\d+) :: (.*)$', head)
                where, k, stmt = m.group(1), int(m.group(2)), m.group(3)
                pos = sig_end
                for _ in range(k):
                    pos = src.find(stmt, pos + 1, body_close)
                    if pos < 0:
                        raise AnchorLost('hint anchor %r #%d in %s' % (stmt, k, e['name']))
                at = pos if where == 'before' else pos + len(stmt)
                edits.append(Edit(at, '\n' + body + '\n', 6))
            elif head.startswith('@closure '):
                m = re.match(r'@closure (\d+) :: (.*?) :: (.*)$', head)
                k, binder, ens = int(m.group(1)), m.group(2), m.group(3)
                pos = sig_end
                for _ in range(k):
                    pos = src.find('||', pos + 1, body_close)
                    if pos < 0:
                        raise AnchorLost('closure %d in %s' % (k, e['name']))
                # closure body: expression up to the matching ')' of the enclosing call
                j = pos + 2
                depth = 0
                while True:
                    c = src[j]
                    if c in '([{':
                        depth += 1
                    elif c in ')]}':
                        if depth == 0:
                            break
                        depth -= 1
                    j += 1
                edits.append(Edit(pos + 2, ' -> (%s) ensures %s {' % (binder, ens), 7))
                edits.append(Edit(j, ' }', 8))
        report.append(('fn', e['mod'], e['block'], e['name'], len(e['subs'])))
    edits.sort(key=lambda x: (x.pos, x.order))
    out = []
    last = 0
    for ed in edits:
        out.append(src[last:ed.pos])
        out.append(ed.text)
        last = ed.pos
    out.append(src[last:])
    return ''.join(out), report

if __name__ == '__main__':
    src = open(sys.argv[1]).read()
    spec = ''.join(open(p).read() + '\n' for p in sys.argv[3:])
    try:
        woven, rep = weave(src, spec)
    except AnchorLost as ex:
        print('ANCHOR-LOST', ex)
        sys.exit(2)
    open(sys.argv[2], 'w').write(woven)
    print('woven %d entries' % len(rep))
