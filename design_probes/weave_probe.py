import re,sys
s=open('t15.rs').read()
def rep(old,new,count=1):
    global s
    assert s.count(old)>=1,('anchor lost',old[:60])
    s=s.replace(old,new,count)

VSPEC='''
pub mod vspec {
use vstd::prelude::*;
verus! {
pub uninterp spec fn hash_fn(id: int, data: Seq<u8>) -> Seq<u8>;
pub uninterp spec fn aead_enc(id: int, k: Seq<u8>, n: u64, ad: Seq<u8>, pt: Seq<u8>) -> Seq<u8>;
pub uninterp spec fn aead_dec(id: int, k: Seq<u8>, n: u64, ad: Seq<u8>, ct: Seq<u8>) -> Option<Seq<u8>>;

pub open spec fn pad_block(key: Seq<u8>, block_len: int, c: u8) -> Seq<u8> {
    Seq::new(block_len as nat, |i: int| if i < key.len() { c ^ key[i] } else { c })
}
pub open spec fn spec_hmac(id: int, bl: int, key: Seq<u8>, data: Seq<u8>) -> Seq<u8> {
    hash_fn(id, pad_block(key, bl, 0x5c) + hash_fn(id, pad_block(key, bl, 0x36) + data))
}
pub open spec fn hkdf1(id: int, bl: int, ck: Seq<u8>, ikm: Seq<u8>) -> Seq<u8> {
    spec_hmac(id, bl, spec_hmac(id, bl, ck, ikm), seq![1u8])
}
pub open spec fn hkdf2(id: int, bl: int, ck: Seq<u8>, ikm: Seq<u8>) -> Seq<u8> {
    spec_hmac(id, bl, spec_hmac(id, bl, ck, ikm), hkdf1(id, bl, ck, ikm) + seq![2u8])
}
pub open spec fn hkdf3(id: int, bl: int, ck: Seq<u8>, ikm: Seq<u8>) -> Seq<u8> {
    spec_hmac(id, bl, spec_hmac(id, bl, ck, ikm), hkdf2(id, bl, ck, ikm) + seq![3u8])
}
pub open spec fn zeros(n: int) -> Seq<u8> { Seq::new(n as nat, |i: int| 0u8) }

pub proof fn lemma_xor_zero(c: u8) ensures c ^ 0u8 == c { assert(c ^ 0u8 == c) by(bit_vector); }

pub proof fn lemma_pad_zero_ext(key: Seq<u8>, m: int, bl: int, c: u8)
    requires m >= 0, key.len() + m <= bl
    ensures pad_block(key + zeros(m), bl, c) =~= pad_block(key, bl, c)
{
    assert forall|i: int| 0 <= i < bl implies pad_block(key + zeros(m), bl, c)[i] == pad_block(key, bl, c)[i] by {
        lemma_xor_zero(c);
    }
}
}
}
'''
rep('pub use crate::error::Error;\n','pub use crate::error::Error;\n'+VSPEC)

# ---- Hash trait contract
rep('''pub trait Hash: Send + Sync {
    /// The string that the Noise spec defines for the primitive
    fn name(&self) -> &'static str;

    /// The block length for the primitive
    fn block_len(&self) -> usize;

    /// The final hash digest length for the primitive
    fn hash_len(&self) -> usize;

    /// Reset the internal state
    fn reset(&mut self);

    /// Provide input to the internal state
    fn input(&mut self, data: &[u8]);

    /// Get the resulting hash
    fn result(&mut self, out: &mut [u8]);
''','''pub trait Hash: Send + Sync {
    spec fn id(&self) -> int;
    spec fn buf(&self) -> Seq<u8>;
    spec fn bl(&self) -> int;
    spec fn hl(&self) -> int;
    /// The string that the Noise spec defines for the primitive
    fn name(&self) -> &'static str;

    /// The block length for the primitive
    fn block_len(&self) -> (r: usize)
        ensures r == self.bl(), 64 <= r <= 128;

    /// The final hash digest length for the primitive
    fn hash_len(&self) -> (r: usize)
        ensures r == self.hl(), 32 <= r <= 64;

    /// Reset the internal state
    fn reset(&mut self)
        ensures final(self).buf() == Seq::<u8>::empty(), final(self).id() == old(self).id(),
          final(self).bl() == old(self).bl(), final(self).hl() == old(self).hl();

    /// Provide input to the internal state
    fn input(&mut self, data: &[u8])
        ensures final(self).buf() == old(self).buf() + data@, final(self).id() == old(self).id(),
          final(self).bl() == old(self).bl(), final(self).hl() == old(self).hl();

    /// Get the resulting hash
    fn result(&mut self, out: &mut [u8])
        requires old(out)@.len() >= old(self).hl()
        ensures final(self).id() == old(self).id(),
          final(self).bl() == old(self).bl(), final(self).hl() == old(self).hl(),
          final(out)@.len() == old(out)@.len(),
          crate::vspec::hash_fn(old(self).id(), old(self).buf()).len() == old(self).hl(),
          final(out)@.subrange(0, old(self).hl()) == crate::vspec::hash_fn(old(self).id(), old(self).buf()),
          final(out)@.subrange(old(self).hl(), old(out)@.len() as int) == old(out)@.subrange(old(self).hl(), old(out)@.len() as int);
''')
rep('''    fn hmac(&mut self, key: &[u8], data: &[u8], out: &mut [u8]) {''','''    fn hmac(&mut self, key: &[u8], data: &[u8], out: &mut [u8])
        requires key@.len() <= old(self).bl(), old(out)@.len() >= old(self).hl()
        ensures final(self).id() == old(self).id(),
          final(self).bl() == old(self).bl(), final(self).hl() == old(self).hl(),
          final(out)@.len() == old(out)@.len(),
          crate::vspec::spec_hmac(old(self).id(), old(self).bl(), key@, data@).len() == old(self).hl(),
          final(out)@.subrange(0, old(self).hl()) == crate::vspec::spec_hmac(old(self).id(), old(self).bl(), key@, data@),
          final(out)@.subrange(old(self).hl(), old(out)@.len() as int) == old(out)@.subrange(old(self).hl(), old(out)@.len() as int),
    {''')
rep('''        for count in 0..key.len() {''','''        for count in 0..key.len()
            invariant key@.len() <= 128,
              forall|i: int| 0 <= i < count ==> ipad@[i] == 0x36u8 ^ key@[i],
              forall|i: int| count <= i < 128 ==> ipad@[i] == 0x36u8,
              forall|i: int| 0 <= i < count ==> opad@[i] == 0x5cu8 ^ key@[i],
              forall|i: int| count <= i < 128 ==> opad@[i] == 0x5cu8,
        {''')
rep('''        self.input(&inner_output[..hash_len]);
        self.result(out);''','''        self.input(&inner_output[..hash_len]);
        proof {
            assert(ipad@.subrange(0, block_len as int) =~= crate::vspec::pad_block(key@, block_len as int, 0x36));
            assert(opad@.subrange(0, block_len as int) =~= crate::vspec::pad_block(key@, block_len as int, 0x5c));
        }
        self.result(out);''')
# hkdf contract
rep('''        out3: &mut [u8],
    ) {
        let hash_len = self.hash_len();''','''        out3: &mut [u8],
    )
        requires chaining_key@.len() <= old(self).bl(),
            1 <= outputs <= 3,
            old(out1)@.len() >= old(self).hl(),
            outputs >= 2 ==> old(out2)@.len() >= old(self).hl(),
            outputs >= 3 ==> old(out3)@.len() >= old(self).hl(),
        ensures final(self).id() == old(self).id(),
          final(self).bl() == old(self).bl(), final(self).hl() == old(self).hl(),
          final(out1)@.len() == old(out1)@.len(), final(out2)@.len() == old(out2)@.len(), final(out3)@.len() == old(out3)@.len(),
          final(out1)@.subrange(0, old(self).hl()) == crate::vspec::hkdf1(old(self).id(), old(self).bl(), chaining_key@, input_key_material@),
          final(out1)@.subrange(old(self).hl(), old(out1)@.len() as int) == old(out1)@.subrange(old(self).hl(), old(out1)@.len() as int),
          outputs >= 2 ==> final(out2)@.subrange(0, old(self).hl()) == crate::vspec::hkdf2(old(self).id(), old(self).bl(), chaining_key@, input_key_material@),
          outputs >= 2 ==> final(out2)@.subrange(old(self).hl(), old(out2)@.len() as int) == old(out2)@.subrange(old(self).hl(), old(out2)@.len() as int),
          outputs >= 3 ==> final(out3)@.subrange(0, old(self).hl()) == crate::vspec::hkdf3(old(self).id(), old(self).bl(), chaining_key@, input_key_material@),
          outputs >= 3 ==> final(out3)@.subrange(old(self).hl(), old(out3)@.len() as int) == old(out3)@.subrange(old(self).hl(), old(out3)@.len() as int),
          outputs < 2 ==> final(out2)@ == old(out2)@,
          outputs < 3 ==> final(out3)@ == old(out3)@,
    {
        let hash_len = self.hash_len();''')
open('t15w.rs','w').write(s)
s=open('t15w.rs').read()
rep('''        requires chaining_key@.len() <= old(self).bl(),
            1 <= outputs <= 3,''','''        requires chaining_key@.len() <= old(self).bl(), 64 <= old(self).bl(),
            1 <= outputs <= 3,''')
rep('''        self.hmac(chaining_key, input_key_material, &mut temp_key);
''','''        self.hmac(chaining_key, input_key_material, &mut temp_key);
        let ghost t = crate::vspec::spec_hmac(self.id(), self.bl(), chaining_key@, input_key_material@);
        proof {
            assert(temp_key@ =~= t + crate::vspec::zeros(64 - hash_len)) by {
                assert(temp_key@.subrange(0, hash_len as int) == t);
                assert forall|i: int| hash_len <= i < 64 implies temp_key@[i] == 0u8 by {
                    assert(temp_key@.subrange(hash_len as int, 64)[i - hash_len] == 0u8);
                }
                assert forall|i: int| 0 <= i < hash_len implies temp_key@[i] == t[i] by {
                    assert(temp_key@.subrange(0, hash_len as int)[i] == t[i]);
                }
            }
            crate::vspec::lemma_pad_zero_ext(t, 64 - hash_len, self.bl(), 0x36);
            crate::vspec::lemma_pad_zero_ext(t, 64 - hash_len, self.bl(), 0x5c);
        }
''')
rep('''        self.hmac(&temp_key, &in2[..=hash_len], out2);''','''        proof { assert(in2@.subrange(0, hash_len + 1) =~= out1@.subrange(0, hash_len as int) + seq![2u8]); }
        self.hmac(&temp_key, &in2[..=hash_len], out2);''')
rep('''        self.hmac(&temp_key, &in3[..=hash_len], out3);''','''        proof { assert(in3@.subrange(0, hash_len + 1) =~= out2@.subrange(0, hash_len as int) + seq![3u8]); }
        self.hmac(&temp_key, &in3[..=hash_len], out3);''')
open('t15w.rs','w').write(s)
s=open('t15w.rs').read()
rep('''        self.hmac(&temp_key, &[1_u8], out1);
''','''        self.hmac(&temp_key, &[1_u8], out1);
        proof {
            assert([1_u8]@ =~= seq![1u8]);
            assert(crate::vspec::spec_hmac(self.id(), self.bl(), temp_key@, seq![1u8]) == crate::vspec::hkdf1(self.id(), self.bl(), chaining_key@, input_key_material@));
        }
''')
open('t15w.rs','w').write(s)
s=open('t15w.rs').read()
# ---- Cipher trait
rep('''pub trait Cipher: Send + Sync {
    /// The string that the Noise spec defines for the primitive
    fn name(&self) -> &'static str;

    /// Set the key
    fn set(&mut self, key: &[u8; CIPHERKEYLEN]);

    /// Encrypt (with associated data) a given plaintext.
    fn encrypt(&self, nonce: u64, authtext: &[u8], plaintext: &[u8], out: &mut [u8]) -> usize;
''','''pub trait Cipher: Send + Sync {
    spec fn id(&self) -> int;
    spec fn key(&self) -> Seq<u8>;
    /// The string that the Noise spec defines for the primitive
    fn name(&self) -> &'static str;

    /// Set the key
    fn set(&mut self, key: &[u8; CIPHERKEYLEN])
        ensures final(self).key() == key@, final(self).id() == old(self).id();

    /// Encrypt (with associated data) a given plaintext.
    fn encrypt(&self, nonce: u64, authtext: &[u8], plaintext: &[u8], out: &mut [u8]) -> (r: usize)
        requires old(out)@.len() >= plaintext@.len() + 16
        ensures r == plaintext@.len() + 16,
            final(out)@.len() == old(out)@.len(),
            crate::vspec::aead_enc(self.id(), self.key(), nonce, authtext@, plaintext@).len() == r,
            final(out)@.subrange(0, r as int) == crate::vspec::aead_enc(self.id(), self.key(), nonce, authtext@, plaintext@),
            final(out)@.subrange(r as int, old(out)@.len() as int) == old(out)@.subrange(r as int, old(out)@.len() as int);
''')
rep('''        ciphertext: &[u8],
        out: &mut [u8],
    ) -> Result<usize, Error>;

    /// Rekey according''','''        ciphertext: &[u8],
        out: &mut [u8],
    ) -> (r: Result<usize, Error>)
        requires ciphertext@.len() >= 16, old(out)@.len() >= ciphertext@.len() - 16
        ensures final(out)@.len() == old(out)@.len(),
            r matches Ok(n) ==> n == ciphertext@.len() - 16
                && crate::vspec::aead_dec(self.id(), self.key(), nonce, authtext@, ciphertext@) == Some(final(out)@.subrange(0, n as int))
                && final(out)@.subrange(n as int, old(out)@.len() as int) == old(out)@.subrange(n as int, old(out)@.len() as int),
            r is Err ==> crate::vspec::aead_dec(self.id(), self.key(), nonce, authtext@, ciphertext@) is None && r == Err::<usize, Error>(Error::Decrypt);

    /// Rekey according''')
rep('''    fn rekey(&mut self) {''','''    fn rekey(&mut self)
        ensures final(self).id() == old(self).id(),
            final(self).key() == crate::vspec::aead_enc(old(self).id(), old(self).key(), u64::MAX, Seq::<u8>::empty(), crate::vspec::zeros(32)).subrange(0, 32),
    {''')
rep('''        self.set(&key);
    }''','''        proof {
            let id = self.id(); let k = self.key();
            assert forall|ad: Seq<u8>, pt: Seq<u8>| ad.len() == 0 && pt.len() == 32 && (forall|i: int| 0 <= i < 32 ==> pt[i] == 0u8)
                implies #[trigger] crate::vspec::aead_enc(id, k, u64::MAX, ad, pt) == crate::vspec::aead_enc(id, k, u64::MAX, Seq::<u8>::empty(), crate::vspec::zeros(32)) by {
                assert(pt =~= crate::vspec::zeros(32)); assert(ad =~= Seq::<u8>::empty());
            }
            assert(key@ =~= ciphertext@.subrange(0, 48).subrange(0, 32));
        }
        self.set(&key);
    }''')
open('t15w.rs','w').write(s)
s=open('t15w.rs').read()
# ---- CipherState
rep('''    pub fn set(&mut self, key: &[u8; CIPHERKEYLEN], n: u64) {''','''    pub fn set(&mut self, key: &[u8; CIPHERKEYLEN], n: u64)
        ensures final(self).cipher.key() == key@, final(self).cipher.id() == old(self).cipher.id(), final(self).n == n, final(self).has_key,
    {''')
rep('''        out: &mut [u8],
    ) -> Result<usize, Error> {
        if !self.has_key {
            return Err(StateProblem::MissingKeyMaterial.into());
        }

        validate_nonce(self.n)?;
        let len = self.cipher.encrypt(self.n, authtext, plaintext, out);''','''        out: &mut [u8],
    ) -> (r: Result<usize, Error>)
        requires old(out)@.len() >= plaintext@.len() + 16
        ensures
            final(self).cipher.key() == old(self).cipher.key(), final(self).cipher.id() == old(self).cipher.id(), final(self).has_key == old(self).has_key,
            final(out)@.len() == old(out)@.len(),
            r is Ok <==> (old(self).has_key && old(self).n != u64::MAX),
            r matches Ok(len) ==> len == plaintext@.len() + 16 && final(self).n == old(self).n + 1
                && final(out)@.subrange(0, len as int) == crate::vspec::aead_enc(old(self).cipher.id(), old(self).cipher.key(), old(self).n, authtext@, plaintext@)
                && final(out)@.subrange(len as int, old(out)@.len() as int) == old(out)@.subrange(len as int, old(out)@.len() as int),
            r is Err ==> final(self).n == old(self).n && final(out)@ == old(out)@,
    {
        if !self.has_key {
            return Err(StateProblem::MissingKeyMaterial.into());
        }

        validate_nonce(self.n)?;
        let len = self.cipher.encrypt(self.n, authtext, plaintext, out);''')
rep('''fn validate_nonce(current: u64) -> Result<(), Error> {''','''fn validate_nonce(current: u64) -> (r: Result<(), Error>)
    ensures r is Ok <==> current != u64::MAX
{''')
# ---- SymmetricState view + contracts
rep('''impl SymmetricState {
    pub fn new(''','''pub struct SymView { pub h: Seq<u8>, pub ck: Seq<u8>, pub k: Seq<u8>, pub n: u64, pub has_key: bool, pub cs_has_key: bool }

impl SymmetricState {
    pub open spec fn view(&self) -> SymView {
        SymView {
            h: self.inner.h@.subrange(0, self.hasher.hl()),
            ck: self.inner.ck@.subrange(0, self.hasher.hl()),
            k: self.cipherstate.cipher.key(),
            n: self.cipherstate.n,
            has_key: self.inner.has_key,
            cs_has_key: self.cipherstate.has_key,
        }
    }
    pub open spec fn wf(&self) -> bool {
        32 <= self.hasher.hl() <= 64 && 64 <= self.hasher.bl() <= 128 && (self.inner.has_key ==> self.cipherstate.has_key)
    }
    pub open spec fn same_ids(&self, o: &SymmetricState) -> bool {
        self.hasher.id() == o.hasher.id() && self.hasher.hl() == o.hasher.hl() && self.hasher.bl() == o.hasher.bl() && self.cipherstate.cipher.id() == o.cipherstate.cipher.id()
    }

    pub fn new(''')
rep('''    pub fn mix_hash(&mut self, data: &[u8]) {''','''    pub fn mix_hash(&mut self, data: &[u8])
        requires old(self).wf()
        ensures final(self).wf(), final(self).same_ids(old(self)),
            final(self)@ == (SymView { h: crate::vspec::hash_fn(old(self).hasher.id(), old(self)@.h + data@), ..old(self)@ }),
    {''')
rep('''        self.hasher.result(&mut self.inner.h);
    }

    pub fn mix_key_and_hash''','''        self.hasher.result(&mut self.inner.h);
        proof { assert(self.inner.ck@ == old(self).inner.ck@); }
    }

    pub fn mix_key_and_hash''')
rep('''    pub fn mix_key(&mut self, data: &[u8]) {''','''    pub fn mix_key(&mut self, data: &[u8])
        requires old(self).wf()
        ensures final(self).wf(), final(self).same_ids(old(self)),
            final(self)@ == (SymView {
                ck: crate::vspec::hkdf1(old(self).hasher.id(), old(self).hasher.bl(), old(self)@.ck, data@),
                k: crate::vspec::hkdf2(old(self).hasher.id(), old(self).hasher.bl(), old(self)@.ck, data@).subrange(0, 32),
                n: 0, has_key: true, cs_has_key: true, ..old(self)@ }),
    {''')
open('t15w.rs','w').write(s)
s=open('t15w.rs').read()
rep('''        self.inner.ck = hkdf_output.0;
        self.cipherstate.set(&cipher_key, 0);
        self.inner.has_key = true;''','''        self.inner.ck = hkdf_output.0;
        self.cipherstate.set(&cipher_key, 0);
        self.inner.has_key = true;
        proof {
            let hl = self.hasher.hl();
            assert(cipher_key@ =~= hkdf_output.1@.subrange(0, hl).subrange(0, 32));
            assert(self.inner.h@ == old(self).inner.h@);
        }''')
open('t15w.rs','w').write(s)
