use vstd::prelude::*;
verus! {
pub const CIPHERKEYLEN: usize = 32;
pub const TAGLEN: usize = 16;
pub enum Error { Decrypt, Input }

macro_rules! copy_slices {
    ($inslice:expr, $outslice:expr) => {
        $outslice[..$inslice.len()].copy_from_slice(&$inslice[..])
    };
}

pub uninterp spec fn aead_enc(id: int, k: Seq<u8>, n: u64, ad: Seq<u8>, pt: Seq<u8>) -> Seq<u8>;
pub uninterp spec fn aead_dec(id: int, k: Seq<u8>, n: u64, ad: Seq<u8>, ct: Seq<u8>) -> Option<Seq<u8>>;
// standard RFC 8439 AEAD with an explicit 12-byte nonce
pub uninterp spec fn std_chachapoly_enc(k: Seq<u8>, nonce12: Seq<u8>, ad: Seq<u8>, pt: Seq<u8>) -> Seq<u8>;
pub uninterp spec fn std_chachapoly_dec(k: Seq<u8>, nonce12: Seq<u8>, ad: Seq<u8>, ct: Seq<u8>) -> Option<Seq<u8>>;
pub open spec fn le64(n: u64) -> Seq<u8> { Seq::new(8, |i: int| ((n >> (8 * i) as u64) & 0xff) as u8) }
pub open spec fn noise_nonce_le(n: u64) -> Seq<u8> { seq![0u8, 0u8, 0u8, 0u8] + le64(n) }

// ---- assumed contract of the third-party API (chacha20poly1305 0.10 / aead 0.5) ----
pub mod chacha20poly1305 {
    use vstd::prelude::*;
    use super::*;
    pub struct Key(pub [u8; 32]);
    pub struct Nonce(pub [u8; 12]);
    pub struct TagRef<'a>(pub &'a [u8]);
    #[derive(Debug)]
    pub struct AeadErr;
    pub struct ChaCha20Poly1305 { pub key: [u8; 32] }
    impl From<[u8; 32]> for Key { fn from(a: [u8; 32]) -> (r: Key) ensures r.0 == a { Key(a) } }
    impl From<[u8; 12]> for Nonce { fn from(a: [u8; 12]) -> (r: Nonce) ensures r.0 == a { Nonce(a) } }
    impl<'a> From<&'a [u8]> for TagRef<'a> { fn from(a: &'a [u8]) -> (r: TagRef<'a>) ensures r.0 == a { TagRef(a) } }
    impl vstd::std_specs::convert::FromSpecImpl<[u8; 32]> for Key { open spec fn obeys_from_spec() -> bool { true } open spec fn from_spec(v: [u8; 32]) -> Self { Key(v) } }
    impl vstd::std_specs::convert::FromSpecImpl<[u8; 12]> for Nonce { open spec fn obeys_from_spec() -> bool { true } open spec fn from_spec(v: [u8; 12]) -> Self { Nonce(v) } }
    impl<'a> vstd::std_specs::convert::FromSpecImpl<&'a [u8]> for TagRef<'a> { open spec fn obeys_from_spec() -> bool { true } open spec fn from_spec(v: &'a [u8]) -> Self { TagRef(v) } }
    impl ChaCha20Poly1305 {
        #[verifier::external_body]
        pub fn new(key: &Key) -> (r: Self) ensures r.key == key.0 { unimplemented!() }
        #[verifier::external_body]
        pub fn encrypt_in_place_detached(&self, nonce: &Nonce, ad: &[u8], buffer: &mut [u8]) -> (r: Result<[u8; 16], AeadErr>)
            ensures final(buffer)@.len() == old(buffer)@.len(),
                r matches Ok(tag) ==> final(buffer)@ + tag@ == std_chachapoly_enc(self.key@, nonce.0@, ad@, old(buffer)@),
        { unimplemented!() }
        #[verifier::external_body]
        pub fn decrypt_in_place_detached(&self, nonce: &Nonce, ad: &[u8], buffer: &mut [u8], tag: TagRef<'_>) -> (r: Result<(), AeadErr>)
            ensures final(buffer)@.len() == old(buffer)@.len(),
                r is Ok ==> std_chachapoly_dec(self.key@, nonce.0@, ad@, old(buffer)@ + tag.0@) == Some(final(buffer)@),
                r is Err ==> std_chachapoly_dec(self.key@, nonce.0@, ad@, old(buffer)@ + tag.0@) is None && final(buffer)@ == old(buffer)@,
        { unimplemented!() }
    }
}
use chacha20poly1305::ChaCha20Poly1305;


#[verifier::external_body]
pub fn u64_to_le_bytes(n: u64) -> (r: [u8; 8]) ensures r@ == le64(n) { n.to_le_bytes() }

pub struct CipherChaChaPoly { pub key: [u8; CIPHERKEYLEN] }

impl CipherChaChaPoly {
    fn encrypt(&self, nonce: u64, authtext: &[u8], plaintext: &[u8], out: &mut [u8]) -> (r: usize)
        requires old(out)@.len() >= plaintext@.len() + 16
        ensures r == plaintext@.len() + 16,
            final(out)@.len() == old(out)@.len(),
            final(out)@.subrange(0, r as int) == std_chachapoly_enc(self.key@, noise_nonce_le(nonce), authtext@, plaintext@),
    {
        let mut nonce_bytes = [0_u8; 12];
        copy_slices!(u64_to_le_bytes(nonce), &mut nonce_bytes[4..]);

        copy_slices!(plaintext, out);

        let tag = ChaCha20Poly1305::new(&self.key.into())
            .encrypt_in_place_detached(&nonce_bytes.into(), authtext, &mut out[0..plaintext.len()])
            .unwrap();

        copy_slices!(tag, &mut out[plaintext.len()..]);

        plaintext.len() + tag.len()
    }
}
}
fn main() {}
