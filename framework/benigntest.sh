#!/bin/bash
# framework/benigntest.sh: apply each behaviour-preserving change of seeded/benign/ to a scratch worktree of /repo and run every
# check against it (informational; never part of a registered check).  Expected: no VIOLATION line.
V=$(cd "$(dirname "$0")/.." && pwd)
W=${SEED_WT:-/var/tmp/w/benignwt}
if [ ! -d "$W" ]; then git -C /repo worktree add --detach "$W" HEAD >/dev/null 2>&1; fi
cd "$W" && git checkout -q -- . && git clean -qfd src tests >/dev/null
mkdir -p "$V/build/benigntest"
for f in "$V"/seeded/benign/[ABN]*.diff; do
  id=$(basename "$f" .diff)
  cd "$W" && git checkout -q -- . && git apply "$f" || { echo "$id PATCH-FAILED"; continue; }
  out="$V/build/benigntest/$id.txt"
  (cd "$V" && VP_REPO=$W VERIF_BUILD="$V/build/benignbuild" VERIF_VACUITY=0 python3 framework/check.py all > "$out" 2>&1)
  viol=$(grep -o "VIOLATION property=C[0-9]*" "$out" | sort -u | sed 's/VIOLATION property=//' | tr '\n' ' ')
  und=$(grep -o "^UNDECIDED C[0-9]*" "$out" | sort -u | sed 's/UNDECIDED //' | tr '\n' ' ')
  echo "$id holds=$(grep -c HOLDS "$out") alarms=[$viol] undecided=[$und]"
  cd "$W" && git checkout -q -- .
done
echo BENIGNTEST-DONE
