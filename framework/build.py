#!/usr/bin/env python3
"""extract + spec modules + weave -> build/<name>.rs"""
import glob, os, sys
sys.path.insert(0, os.path.dirname(os.path.abspath(__file__)))
import extract as X
import weave as W

ROOT = os.path.dirname(os.path.dirname(os.path.abspath(__file__)))

def build(repo, out_path, vacuity=False):
    ex = X.extract(repo)
    spec = ''.join(open(p).read() + '\n' for p in sorted(glob.glob(os.path.join(ROOT, 'spec', '*.rs'))))
    src = ex.text.replace('//@SPEC-MODULES@', spec)
    vspecs = [(os.path.relpath(p, ROOT), open(p).read()) for p in sorted(glob.glob(os.path.join(ROOT, 'contracts', '*.vspec')))]
    woven, info = W.weave(src, vspecs, vacuity=vacuity)
    os.makedirs(os.path.dirname(out_path), exist_ok=True)
    open(out_path, 'w').write(woven)
    return ex, woven, info

if __name__ == '__main__':
    repo = os.environ.get('VP_REPO', '/repo')
    try:
        ex, woven, info = build(repo, sys.argv[1] if len(sys.argv) > 1 else os.path.join(ROOT, 'build', 'snow_verus.rs'), vacuity='--vacuity' in sys.argv)
    except (X.AnchorLost, W.AnchorLost) as e:
        print('ANCHOR-LOST', e); sys.exit(2)
    print('woven: %d lines, %d contracted fns, %d labelled lines' % (woven.count('\n'), len(info['fn_entries']), len(info['line_meta'])))
