#!/usr/bin/env python3
"""Driver: ./check <Cxx> [--tier quick|thorough]   |   ./check replay <file>   |   ./check all   |   ./check build

Decides a property by (1) re-extracting /repo/src, (2) weaving the committed contracts,
(3) running Verus on the result, (4) mapping every verifier diagnostic to a named obligation
(function x label) and from there to property ids, (5) vacuity guards, (6) evidence + verdict.

exit 0: every obligation of the property discharged     exit 1: VIOLATION line(s) printed
exit 2: undecided (lost anchor, unsupported construct, resource limit, vacuity guard) - never an alarm
"""
import glob
import hashlib
import json
import os
import re
import subprocess
import sys
import time

HERE = os.path.dirname(os.path.abspath(__file__))
ROOT = os.path.dirname(HERE)
sys.path.insert(0, HERE)
import extract as X   # noqa: E402
import weave as W     # noqa: E402
import probe as P     # noqa: E402

REPO = os.environ.get('VP_REPO', '/repo')
BUILD = os.environ.get('VERIF_BUILD', os.path.join(ROOT, 'build'))
# evidence and replay files describe /repo itself; a development run against another tree (VP_REPO, used by
# framework/seedtest.sh) must never overwrite them
OUT = ROOT if os.path.realpath(REPO) == '/repo' else BUILD
VERUS_FLAGS = ['--cfg', 'feature="std"', '--cfg', 'feature="default-resolver"', '--triggers-mode', 'silent',
               '--multiple-errors', '60', '--output-json', '--time', '--error-format=json']
CRATE_MODS = ('constants', 'error', 'utils', 'types', 'cipherstate', 'symmetricstate', 'handshakestate',
              'transportstate', 'stateless_transportstate', 'params', 'builder', 'resolvers')


class Undecided(Exception):
    pass


def sha(s):
    return hashlib.sha256(s.encode() if isinstance(s, str) else s).hexdigest()


def framework_hash():
    h = hashlib.sha256()
    for p in sorted(glob.glob(os.path.join(HERE, '*.py'))):
        h.update(open(p, 'rb').read())
    return h.hexdigest()[:16]


def verus_version():
    try:
        out = subprocess.run(['verus', '--version'], capture_output=True, text=True).stdout
        m = re.search(r'Version: (\S+)', out)
        return m.group(1) if m else 'unknown'
    except Exception:
        return 'unavailable'


# --------------------------------------------------------------------------- build

def build(vacuity=False, unit='core', split=None, tag='', isolate=()):
    ex = X.extract(REPO)
    spec = ''.join('//@@SPECFILE %s\n' % os.path.relpath(p, ROOT) + open(p).read() + '\n'
                   for p in sorted(glob.glob(os.path.join(ROOT, 'spec', '*.rs'))))
    src = ex.text.replace('//@SPEC-MODULES@', spec)
    import gen_patterns as G
    try:
        pat_vspec, _ = G.vspec(open(os.path.join(ROOT, 'spec', 'noise_patterns.txt')).read())
    except G.PatternFileError as e:
        raise Undecided('spec/noise_patterns.txt: %s' % e)
    vspecs = [('spec/noise_patterns.txt(generated)', pat_vspec)]
    vspecs += [(os.path.relpath(p, ROOT), open(p).read()) for p in sorted(glob.glob(os.path.join(ROOT, 'contracts', '*.vspec')))]
    woven, info = W.weave(src, vspecs, vacuity=vacuity, split=split, isolate=isolate)
    if vacuity:
        woven = lemma_vacuity_probes(woven, info)
    os.makedirs(BUILD, exist_ok=True)
    path = os.path.join(BUILD, 'snow_verus%s%s.rs' % ('_vacuity' if vacuity else '', tag))
    open(path, 'w').write(woven)
    return ex, woven, info, path


def lemma_vacuity_probes(woven, info):
    """must-fail probe for every tagged lemma (`//# props ...`): `assert(false)` as first statement of its body.
    A lemma whose hypotheses are contradictory would prove it.  Inserted on the same line -> line numbers unchanged."""
    lines = woven.split('\n')
    i = 0
    while i < len(lines):
        if re.match(r'\s*//# props ', lines[i]):
            j = i + 1
            name = None
            while j < len(lines):
                m = re.match(r'\s*(?:#\[[^\]]*\]\s*)*(?:pub )?(?:(?:open|closed|broadcast) )*proof fn (\w+)', lines[j])
                if m and name is None:
                    name = m.group(1)
                elif re.match(r'\s*(?:pub )?(?:(?:open|closed|broadcast|uninterp) )*(?:spec |proof |exec )?fn \w+', lines[j]) and name is not None:
                    break           # next item reached without finding the body: give up on this lemma
                if name is not None:
                    if lines[j].rstrip() == '{':
                        lines[j] = '{ let vp_c: bool = arbitrary::<Seq<bool>>()[%d]; if vp_c { assert(false); } //@@VACUITY-PROBE-LEMMA ' % (100000 + j) + name
                    elif lines[j].rstrip().endswith('{}'):
                        lines[j] = lines[j].rstrip()[:-2] + '{ let vp_c: bool = arbitrary::<Seq<bool>>()[%d]; if vp_c { assert(false); } } //@@VACUITY-PROBE-LEMMA ' % (100000 + j) + name
                    else:
                        j += 1
                        continue
                    info['line_meta'][j + 1] = {'fn': None, 'label': 'vacuity-probe-lemma', 'props': [], 'kind': 'vacuity', 'where': ('', 0), 'text': name}
                    break
                j += 1
            i = j
        i += 1
    return '\n'.join(lines)


WRAPPER_SHARED = ['00_error.vspec', '02_types.vspec', '09_resolvers.vspec']
WRAPPER_CFG = ['--cfg', 'feature="use-curve25519"', '--cfg', 'feature="use-chacha20poly1305"', '--cfg', 'feature="use-xchacha20poly1305"', '--cfg', 'feature="use-aes-gcm"',
               '--cfg', 'feature="use-sha2"', '--cfg', 'feature="use-blake2"', '--cfg', 'feature="p256"']


def build_wrappers(vacuity=False, isolate=(), which='default'):
    """R16: the wrapper verification units (resolvers/default.rs resp. resolvers/ring.rs against assumed dependency contracts)"""
    ex = X.extract_wrappers(REPO, ROOT, which=which)
    spec = '//@@SPECFILE spec/00_prims.rs\n' + open(os.path.join(ROOT, 'spec', '00_prims.rs')).read() + '\n'
    depfile = 'ring.rs' if which == 'ring' else 'rustcrypto.rs'
    deps = open(os.path.join(ROOT, 'spec', 'deps', depfile)).read() + '\n'
    src = ex.text.replace('//@SPEC-MODULES@', spec).replace('//@DEPS@', deps)
    vspecs = [(os.path.join('contracts', f), open(os.path.join(ROOT, 'contracts', f)).read()) for f in WRAPPER_SHARED]
    sub = 'ring' if which == 'ring' else 'wrappers'
    vspecs += [(os.path.relpath(p, ROOT), open(p).read()) for p in sorted(glob.glob(os.path.join(ROOT, 'contracts', sub, '*.vspec')))]
    woven, info = W.weave(src, vspecs, vacuity=vacuity, isolate=isolate)
    os.makedirs(BUILD, exist_ok=True)
    path = os.path.join(BUILD, 'snow_%s%s.rs' % ('ring' if which == 'ring' else 'wrappers', '_vacuity' if vacuity else ''))
    open(path, 'w').write(woven)
    return ex, woven, info, path


def build_parser(vacuity=False, isolate=()):
    """R19p: the third verification unit (protocol-name parser against the Noise name grammar)"""
    ex = X.extract_parser(REPO)
    import gen_patterns as G
    try:
        names = G.pattern_names(open(os.path.join(ROOT, 'spec', 'noise_patterns.txt')).read())
    except G.PatternFileError as e:
        raise Undecided('spec/noise_patterns.txt: %s' % e)
    spec = ''.join('//@@SPECFILE %s\n' % os.path.relpath(p, ROOT) + open(p).read() + '\n'
                   for p in sorted(glob.glob(os.path.join(ROOT, 'spec', 'parser', '*.rs'))))
    spec = spec.replace('//@GENERATED-PATTERN-NAMES@', G.parser_names_spec(names))
    src = ex.text.replace('//@SPEC-MODULES@', spec)
    vspecs = [(os.path.join('contracts', '00_error.vspec'), open(os.path.join(ROOT, 'contracts', '00_error.vspec')).read())]
    vspecs += [(os.path.relpath(p, ROOT), open(p).read()) for p in sorted(glob.glob(os.path.join(ROOT, 'contracts', 'parser', '*.vspec')))]
    woven, info = W.weave(src, vspecs, vacuity=vacuity, isolate=isolate)
    if vacuity:
        woven = lemma_vacuity_probes(woven, info)
    os.makedirs(BUILD, exist_ok=True)
    path = os.path.join(BUILD, 'snow_parser%s.rs' % ('_vacuity' if vacuity else ''))
    open(path, 'w').write(woven)
    return ex, woven, info, path


# --------------------------------------------------------------------------- verus

def run_verus(path, woven, extra=(), tag=''):
    """returns (out_json, diagnostics, cache_hit, wall_s)"""
    key = sha(woven + '\0' + ' '.join(VERUS_FLAGS) + ' '.join(extra) + verus_version() + framework_hash())[:32]
    cdir = os.path.join(BUILD, 'cache')
    os.makedirs(cdir, exist_ok=True)
    cfile = os.path.join(cdir, key + '.json')
    if os.path.exists(cfile) and not os.environ.get('VERIF_NO_CACHE'):
        try:
            d = json.load(open(cfile))
            return d['out'], d['diags'], True, d['wall_s']
        except Exception:
            pass
    t0 = time.time()
    nthreads = os.environ.get('VERIF_THREADS', '15')
    extra = list(extra)
    if '--num-threads' in extra:
        k = extra.index('--num-threads')
        nthreads = extra[k + 1]
        del extra[k:k + 2]
    cmd = ['verus', path] + VERUS_FLAGS + ['--num-threads', nthreads] + extra
    pr = subprocess.run(cmd, capture_output=True, text=True, cwd=BUILD)
    wall = time.time() - t0
    try:
        out = json.loads(pr.stdout)
    except Exception:
        raise Undecided('verus produced no JSON (exit %s): %s' % (pr.returncode, pr.stderr[-2000:]))
    diags = []
    for l in pr.stderr.split('\n'):
        l = l.strip()
        if l.startswith('{'):
            try:
                diags.append(json.loads(l))
            except Exception:
                pass
    out.pop('func-details', None)
    json.dump({'out': out, 'diags': diags, 'wall_s': wall, 'cmd': ' '.join(cmd)}, open(cfile, 'w'))
    return out, diags, False, wall


# --------------------------------------------------------------------------- mapping diagnostics -> obligations

def lemma_props(woven):
    """`//# props C02,C03` comment lines in spec files tag the next fn."""
    res = {}
    lines = woven.split('\n')
    pend = None
    for i, l in enumerate(lines, 1):
        m = re.match(r'\s*//# props (.*)$', l)
        if m:
            pend = [p.strip() for p in m.group(1).split(',') if p.strip()]
            continue
        if pend is not None:
            m = re.match(r'\s*(?:#\[[^\]]*\]\s*)*(?:pub )?(?:(?:open|closed|broadcast) )*(?:proof )?fn (\w+)', l)
            if m:
                res[i] = pend
                pend = None
    return res


class Model:
    """obligation universe of one woven file"""

    def __init__(self, woven, info):
        self.woven = woven
        self.lines = woven.split('\n')
        self.info = info
        self.fns = W.index_items(woven)            # [(line, id)]
        self.fn_trait = dict(W.index_items.last_fn_trait)   # fn id -> trait it implements (if in an `impl T for X` block)
        self.fn_lines = [f[0] for f in self.fns]
        self.line_meta = info['line_meta']
        self.entry_props = {fe['id']: fe['props'] for fe in info['fn_entries']}
        self.lemma_props = {}
        for ln, props in lemma_props(woven).items():
            fid = self.fn_at(ln)
            if fid:
                self.lemma_props[fid] = props

    def fn_at(self, line):
        import bisect
        i = bisect.bisect_right(self.fn_lines, line)
        return self.fns[i - 1][1] if i > 0 else None

    def src_of(self, line):
        return self.lines[line - 1].strip() if 0 < line <= len(self.lines) else ''


def axioms_used(model, fn_ids):
    """names of `ax_*` axioms reachable (through lemma_* calls) from the given lemma functions of this model"""
    starts = model.fns
    region = {}
    for k, (ln, fid) in enumerate(starts):
        end = starts[k + 1][0] if k + 1 < len(starts) else len(model.lines) + 1
        region[fid] = '\n'.join(model.lines[ln - 1:end - 1])
    byname = {}
    for fid in region:
        byname.setdefault(fid.split('::')[-1], []).append(fid)
    seen, todo, ax = set(), list(fn_ids), set()
    while todo:
        f = todo.pop()
        if f in seen or f not in region:
            continue
        seen.add(f)
        for m in re.finditer(r'\b(ax_\w+|lemma_\w+)\s*\(', region[f]):
            n = m.group(1)
            if n.startswith('ax_'):
                ax.add(n)
            else:
                todo += byname.get(n, [])
    return sorted(ax)


def short_fn(vname):
    """'snow_verus::handshakestate::HandshakeState::new' -> 'handshakestate::HandshakeState::new'"""
    return vname.split('::', 1)[1] if '::' in vname else vname


_CONST_ITEM = re.compile(r'^\s*(?:#\[[^\]]*\]\s*)*(?:pub(?:\([^)]*\))?\s+)?(?:const|static)\s+(?:mut\s+)?[A-Za-z_][A-Za-z_0-9]*\s*:')


def _in_const_item(model, line):
    """is `line` inside the statement of a `const NAME: T = ...;` / `static NAME: T = ...;` item (not a `const fn`)?"""
    k = line
    while k > 1 and k > line - 30:
        prev = model.src_of(k - 1)
        if prev.endswith(';') or prev.endswith('}') or prev.endswith('{') or prev == '' or prev.startswith('//') or (prev.startswith('#[') and prev.endswith(']')):
            break
        k -= 1
    return bool(_CONST_ITEM.match(model.src_of(k)))


def map_diag(model, d, fname):
    """-> dict(fn, label, kind, message, site, clause) or None for non-errors"""
    if d.get('level') != 'error':
        return None
    msg = d.get('message', '')
    if msg.startswith('aborting due to'):
        return None
    spans = [s for s in d.get('spans', []) if os.path.basename(s.get('file_name', '')) == os.path.basename(fname)]
    prim = [s for s in spans if s.get('is_primary')]
    sec = [s for s in spans if not s.get('is_primary')]
    res = {'message': msg, 'rendered': d.get('rendered', '')[:4000]}
    resource = ('rlimit' in msg.lower() or 'resource limit' in msg.lower() or 'timed out' in msg.lower() or 'timeout' in msg.lower())
    if resource:
        res['kind'] = 'resource'
    elif msg.startswith('postcondition not satisfied'):
        res['kind'] = 'postcondition'
    elif msg.startswith('precondition not'):
        res['kind'] = 'precondition'
    elif 'invariant not satisfied' in msg:
        res['kind'] = 'invariant'
    elif msg.startswith('assertion failed'):
        res['kind'] = 'assertion'
    elif 'arithmetic underflow/overflow' in msg or 'overflow' in msg:
        res['kind'] = 'overflow'
    elif 'decreases' in msg or 'termination' in msg:
        res['kind'] = 'termination'
    else:
        res['kind'] = 'other:' + msg[:60]
    if res['kind'] == 'postcondition':
        body = sec or prim
        clause = prim
    else:
        body = prim or sec
        clause = sec
    if not body:
        res.update(fn=None, label='unmapped', site='', clause='')
        return res
    bline = body[0]['line_start']
    if res['kind'] == 'overflow' and _in_const_item(model, bline):
        # arithmetic in the initialiser of a `const` / `static` item: rustc evaluates it at compile time and overflow there is a
        # compile error, so the crate that compiled cannot overflow here.  Not an obligation of any function (mapping it to the
        # function that happens to precede the item raised C10/C15 for a new `const M: u64 = (1 << 32) - 1;`, seed C16-11).
        return None
    res['fn'] = model.fn_at(bline)
    res['site_line'] = bline
    res['site'] = model.src_of(bline)
    label = None
    meta = None
    cand = []
    if res['kind'] == 'postcondition':
        cand = [s['line_start'] for s in clause]
    elif res['kind'] in ('invariant', 'assertion'):
        cand = [s['line_start'] for s in prim]
    elif res['kind'] == 'precondition' and prim and model.line_meta.get(prim[0]['line_start'], {}).get('kind') == 'hint' \
            and model.line_meta[prim[0]['line_start']].get('label') not in (None, 'hint'):
        # a lemma call inside a labelled proof step whose premise does not hold: that step is the failed obligation
        cand = [prim[0]['line_start']]
    for ln in cand:
        # a multi-line clause: walk back to the closest labelled line of the same fn (assertions: same line only,
        # unless they are part of a labelled multi-line proof block)
        back = 40
        if res['kind'] == 'assertion' and model.line_meta.get(ln, {}).get('kind') == 'vacuity':
            back = 1
        for k in range(ln, max(ln - back, 0), -1):
            mt = model.line_meta.get(k)
            if mt is not None:
                if mt['kind'] == 'vacuity' or mt['fn'] == res['fn'] or res['kind'] == 'postcondition':
                    meta = mt
                break
        if meta:
            break
    if meta is not None and meta['kind'] == 'assumed' and meta['fn'] != res['fn']:
        label = 'implements_trait_contract'
        res['props'] = meta['props']
        res['clause'] = meta['text']
        res['where'] = '%s:%d' % meta['where']
    elif meta is not None and meta['kind'] != 'vacuity':
        label = meta['label']
        res['props'] = meta['props']
        res['clause'] = meta['text']
        res['where'] = '%s:%d' % meta['where']
    elif meta is not None:
        label = meta['label']
        res['props'] = []
        res['clause'] = ''
    elif res['kind'] == 'postcondition' and clause and 'from_str_post' in model.src_of(clause[0]['line_start']):
        label = 'accepts_exactly_the_grammar_and_names_its_components'
        res['props'] = list(model.entry_props.get(res['fn'], []))
        res['clause'] = model.src_of(clause[0]['line_start'])
    else:
        label = 'safety'
        res['clause'] = model.src_of(clause[0]['line_start']) if clause else ''
    res['label'] = label
    return res


# functions the parser unit owns (the core unit keeps these `external`; everything else of params/error is verified in the core unit)
PARSER_FNS = ('params::BaseChoice::from_str', 'params::DHChoice::from_str', 'params::CipherChoice::from_str', 'params::HashChoice::from_str',
              'params::NoiseParams::from_str', 'params::NoiseParams::new', 'params::lemma_prim_literals',
              'params::patterns::HandshakePattern::from_str', 'params::patterns::HandshakePattern::as_str',
              'params::patterns::HandshakeModifier::from_str', 'params::patterns::HandshakeModifierList::from_str',
              'params::patterns::HandshakeChoice::from_str', 'params::patterns::HandshakeChoice::parse_pattern_and_modifier',
              'params::patterns::HandshakeChoice::is_fallback', 'params::patterns::lemma_', 'pgram::', 'pspec::')

UNITS = [
    {'name': 'core', 'build': 'core', 'flags': [], 'prefixes': None, 'trusted': 'trusted.txt'},
    {'name': 'wrappers', 'build': 'wrappers', 'flags': WRAPPER_CFG + ['--verify-module', 'resolvers::default'],
     'prefixes': ('resolvers::default::',), 'trusted': os.path.join('wrappers', 'trusted.txt')},
    {'name': 'parser', 'build': 'parser', 'flags': [], 'prefixes': PARSER_FNS, 'trusted': os.path.join('parser', 'trusted.txt')},
    {'name': 'ring', 'build': 'ring', 'flags': ['--cfg', 'feature="ring"', '--cfg', 'feature="ring-resolver"', '--verify-module', 'resolvers::ring'],
     'prefixes': ('resolvers::ring::',), 'trusted': os.path.join('ring', 'trusted.txt')},
]


def _fn_verus_args(fnid):
    parts = fnid.split('::')
    # module path = leading lower-case segments; function = the rest
    k = 0
    while k < len(parts) - 1 and parts[k][:1].islower():
        k += 1
    return ['--verify-only-module', '::'.join(parts[:k]), '--verify-function', '::'.join(parts[k:])]


class Rejected(Undecided):
    def __init__(self, msg, info):
        Undecided.__init__(self, msg)
        self.info = info


def collect_unit(unit, vacuity=False):
    """one verification unit.  If Verus rejects the woven text (type error) and proof anchors were lost while weaving, the
    functions that lost an anchor are isolated (contract kept, body left out of this run - they count as NOT verified)
    and the unit is verified again, so that one disturbed function does not make every other function undecided."""
    try:
        return _collect_unit_once(unit, vacuity, ())
    except Rejected as r:
        contracted = {fe['id'] for fe in r.info.get('fn_entries', []) if fe.get('has_body')}
        lost = sorted({h['fn'] for h in r.info.get('lost_hints', [])} | (set(r.info.get('rejected_in', [])) & contracted))
        plain = sorted(set(r.info.get('rejected_in', [])) - contracted)     # functions without a contract entry that Verus cannot take
        if not lost and not plain:
            raise
        res = _collect_unit_once(unit, vacuity, tuple(lost), tuple(plain))
        res['isolated'] = lost + plain
        res['isolated_plain'] = plain
        return res


def patch_plain(woven, info, names):
    """functions WITHOUT a contract entry whose bodies Verus rejects (unsupported construct): mark them external_body on
    their own header line (no line shift).  Their callers are treated as tainted by check_property."""
    if not names:
        return woven
    m = Model(woven, info)
    lines = woven.split('\n')
    starts = [0]
    for l in lines:
        starts.append(starts[-1] + len(l) + 1)
    inserts = []      # (offset, text) - body brackets, applied back to front (no line is added)
    for (ln, fid) in m.fns:
        if fid in names and '@@ISOLATED' not in lines[ln - 1]:
            lines[ln - 1] = re.sub(r'^(\s*)((?:pub(?:\([a-z]+\))? )?(?:const )?fn )', r'\1#[verifier::external_body] /*@@ISOLATED*/ \2', lines[ln - 1], count=1)
    text = '\n'.join(lines)
    for mm in list(re.finditer(r'/\*@@ISOLATED\*/ [^\n]*?fn \w+', text)):
        ob = text.find('{', mm.end())
        semi = text.find(';', mm.end())
        if ob < 0 or (0 <= semi < ob):
            continue
        if text[ob + 1:ob + 18] == ' #[cfg(any())] {':
            continue                      # already bracketed by the weaver
        try:
            cb = W.match_brace(text, ob)
        except Exception:
            continue
        inserts.append((cb, '} unimplemented!() '))
        inserts.append((ob + 1, ' #[cfg(any())] {'))
    for off, t in sorted(inserts, reverse=True):
        text = text[:off] + t + text[off:]
    return text


def _collect_unit_once(unit, vacuity, isolate, isolate_plain=()):
    variants = []
    if unit['build'] == 'core':
        # path-split verification (contracts may declare `@split` cases for functions with large loop bodies):
        # main run = every declared case cut by assume(false); one extra run per case with only that case enabled
        ex, woven, info, path = build(vacuity=vacuity, split=('*', '*'), isolate=isolate)
        if not vacuity:
            for fnid, cases in sorted(info.get('splits', {}).items()):
                for case in cases:
                    if fnid not in isolate:
                        variants.append((fnid, case))
    elif unit['build'] == 'parser':
        ex, woven, info, path = build_parser(vacuity=vacuity, isolate=isolate)
    elif unit['build'] == 'ring':
        ex, woven, info, path = build_wrappers(vacuity=vacuity, isolate=isolate, which='ring')
    else:
        ex, woven, info, path = build_wrappers(vacuity=vacuity, isolate=isolate)
    if isolate_plain:
        woven = patch_plain(woven, info, set(isolate_plain))
        open(path, 'w').write(woven)
    model = Model(woven, info)
    model.unit = unit
    import concurrent.futures

    def run_variant(fc):
        fnid, case = fc
        tag = '__%s__%s' % (re.sub(r'\W+', '_', fnid), case)
        ex2, woven2, info2, path2 = build(vacuity=False, split=(fnid, case), tag=tag, isolate=isolate)
        if isolate_plain:
            woven2 = patch_plain(woven2, info2, set(isolate_plain))
            open(path2, 'w').write(woven2)
        m2 = Model(woven2, info2)
        m2.unit = unit
        out2, diags2, hit2, wall2 = run_verus(path2, woven2, extra=unit['flags'] + _fn_verus_args(fnid) + ['--num-threads', '2'])
        return fnid, case, m2, out2, diags2, hit2, wall2, path2
    with concurrent.futures.ThreadPoolExecutor(max_workers=8) as pool:
        futs = [pool.submit(run_variant, fc) for fc in variants]
        out, diags, hit, wall = run_verus(path, woven, extra=unit['flags'])
        vresults = [f.result() for f in futs]
    vr = out.get('verification-results', {})
    if vr.get('encountered-vir-error') or ('verified' not in vr) or (vr.get('encountered-error') and not vr.get('errors')):
        # rustc / VIR level failure: the text did not type-check -> undecided
        errs = [d.get('rendered', d.get('message', '')) for d in diags if d.get('level') == 'error']
        # the contracted functions the compile errors point into (candidates for isolation)
        info['rejected_in'] = sorted({f for f in (model.fn_at(sp.get('line_start', 0)) for d in diags if d.get('level') == 'error'
                                                   for sp in d.get('spans', []) if os.path.basename(sp.get('file_name', '')) == os.path.basename(path)) if f})
        raise Rejected('verus rejected the woven text of unit %s before verification (type error / unsupported construct):\n' % unit['name'] + '\n'.join(errs)[:3000], info)
    pre = unit['prefixes']
    funcs = {}
    for m in out.get('times-ms', {}).get('smt', {}).get('smt-run-module-times', []):
        for f in m.get('function-breakdown', []):
            fn = short_fn(f['function'])
            if pre is None or fn.startswith(pre):
                funcs[fn] = {'ok': bool(f.get('success')), 'ms': f.get('time', 0), 'mode': f.get('mode:', ''), 'rlimit': f.get('rlimit', 0), 'unit': unit['name']}
    errors = []
    for d in diags:
        e = map_diag(model, d, path)
        if e and (pre is None or (e.get('fn') or '').startswith(pre)):
            e['unit'] = unit['name']
            errors.append(e)
    split_info = []
    for (fnid, case, m2, out2, diags2, hit2, wall2, path2) in vresults:
        vr2 = out2.get('verification-results', {})
        if vr2.get('encountered-vir-error') or ('verified' not in vr2):
            raise Undecided('verus rejected split variant %s/%s' % (fnid, case))
        ok2, ms2 = True, 0
        for m in out2.get('times-ms', {}).get('smt', {}).get('smt-run-module-times', []):
            for f in m.get('function-breakdown', []):
                if short_fn(f['function']) == fnid:
                    ok2 = ok2 and bool(f.get('success'))
                    ms2 += f.get('time', 0)
        if fnid in funcs:
            funcs[fnid]['ok'] = funcs[fnid]['ok'] and ok2
            funcs[fnid]['ms'] += ms2
        for d in diags2:
            e = map_diag(m2, d, path2)
            if e and e.get('fn') == fnid:
                e['unit'] = unit['name']
                e['split_case'] = case
                errors.append(e)
        split_info.append({'fn': fnid, 'case': case, 'ok': ok2, 'solver_ms': ms2, 'wall_s': round(wall2, 1), 'cache_hit': hit2})
        hit = hit and hit2
        wall = max(wall, wall2)
    model.split_info = split_info
    return {'unit': unit, 'ex': ex, 'model': model, 'funcs': funcs, 'errors': errors, 'cache_hit': hit, 'wall_s': wall,
            'path': path, 'verified': vr.get('verified', 0), 'nerrors': vr.get('errors', 0)}


P256_CORE = {'name': 'core-p256', 'build': 'core', 'flags': ['--cfg', 'feature="p256"'], 'prefixes': None, 'trusted': 'trusted.txt', 'confirm': True}
PARSER_EXT = {'name': 'parser-ext', 'build': 'parser', 'flags': ['--cfg', 'feature="p256"', '--cfg', 'feature="use-xchacha20poly1305"'], 'prefixes': PARSER_FNS,
              'trusted': os.path.join('parser', 'trusted.txt'), 'confirm': True}


def collect(vacuity=False, tier='quick'):
    """run every verification unit and merge: function names of different units never collide (prefix filter).
    thorough tier: the core unit is verified a second time in the p256 configuration (MAXDHLEN = 65, DHChoice::P256)"""
    units, failed_units = [], {}
    for u in UNITS:
        try:
            units.append(collect_unit(u, vacuity=vacuity))
        except (X.AnchorLost, W.AnchorLost, Undecided) as e:
            # one unit that cannot be built / is rejected as a whole must not take the other units' properties with it;
            # the core unit serves every property, so its failure is everybody's
            if u['name'] == 'core':
                raise
            failed_units[u['name']] = str(e).split('\n')[0][:300]
    confirm = []
    if tier == 'thorough' and not vacuity:
        for cu in (P256_CORE, PARSER_EXT):
            if cu['build'] in failed_units or (cu['build'] == 'parser' and 'parser' in failed_units):
                continue
            confirm.append(collect_unit(cu, vacuity=False))
    res = {'failed_units': failed_units, 'units': units, 'funcs': {}, 'errors': [], 'cache_hit': all(u['cache_hit'] for u in units),
           'wall_s': sum(u['wall_s'] for u in units), 'verified': sum(u['verified'] for u in units), 'nerrors': sum(u['nerrors'] for u in units),
           'ex': units[0]['ex'], 'model': units[0]['model']}
    for u in units:
        res['funcs'].update(u['funcs'])
        res['errors'] += u['errors']
    for u in confirm:      # same functions again under another configuration: a function is discharged only if both agree
        for fn, st in u['funcs'].items():
            if fn in res['funcs']:
                res['funcs'][fn]['ok'] = res['funcs'][fn]['ok'] and st['ok']
                res['funcs'][fn]['ms'] += st['ms']
        for e in u['errors']:
            e['unit'] = u['unit']['name']
            res['errors'].append(e)
        res['wall_s'] += u['wall_s']
        res['cache_hit'] = res['cache_hit'] and u['cache_hit']
    res['confirm_units'] = [{'unit': u['unit']['name'], 'verified_functions': u['verified'], 'failed_functions': u['nerrors'], 'verus_wall_s': round(u['wall_s'], 1)} for u in confirm]
    return res


def unit_props(uname):
    """property ids a unit's contract files speak about (labels and props lines) - used only when the unit as a whole fails"""
    sub = {'wrappers': 'wrappers', 'parser': 'parser', 'ring': 'ring'}.get(uname)
    props = {'C10'}
    if sub is None:
        return {'C%02d' % i for i in range(1, 21)}
    files = glob.glob(os.path.join(ROOT, 'contracts', sub, '*.vspec'))
    if sub in ('wrappers', 'ring'):
        # the wrapper units verify the built-in primitives against the TRAIT contracts, which live in the shared files
        files += [os.path.join(ROOT, 'contracts', '02_types.vspec'), os.path.join(ROOT, 'contracts', '09_resolvers.vspec')]
    for f in files:
        for l in open(f):
            if l.startswith('props ') or l.startswith('#: ') or l.startswith('//# props'):
                props.update(re.findall(r'C\d\d', l))
    return props


def obligations(res):
    """universe: {(fn,label): {'props': set, 'kind', 'texts': [..]}} over all units"""
    obs = {}
    for u in res['units']:
        _obligations_unit(u, obs)
    return obs


def _obligations_unit(res, obs):
    model = res['model']
    pre = res['unit']['prefixes']
    for ln, mt in sorted(model.line_meta.items()):
        if mt['kind'] in ('items', 'vacuity', 'assumed') or mt['fn'] is None:
            continue
        if pre is not None and not mt['fn'].startswith(pre):
            continue
        if mt['kind'] == 'spec' and re.match(r'\s*requires\b', mt['text']) and mt['label'] == 'contract':
            pass
        key = (mt['fn'], mt['label'])
        o = obs.setdefault(key, {'props': set(), 'kind': mt['kind'], 'texts': [], 'where': '%s:%d' % mt['where']})
        o['props'].update(mt['props'])
        if len(o['texts']) < 3:
            o['texts'].append(mt['text'][:200])
    # a verified impl of a trait method whose contract is stated on the trait: one obligation "meets the trait contract"
    decls = {}
    for fe in model.info['fn_entries']:
        if fe.get('decl_of_trait') and not fe['has_body']:
            decls[(fe['decl_of_trait'], fe['name'])] = fe
    for fid, t in model.fn_trait.items():
        name = fid.split('::')[-1]
        if (t, name) in decls and fid in res['funcs']:
            o = obs.setdefault((fid, 'implements_trait_contract'), {'props': set(), 'kind': 'trait', 'texts': ['meets the contract stated on trait %s::%s' % (t, name)], 'where': '%s:%d' % decls[(t, name)]['where']})
            o['props'].update(model.entry_props.get(fid, []))
            o['props'].update(decls[(t, name)]['props'])
    known_fns = load_known_functions()
    for fn, st in res['funcs'].items():
        mod = fn.split('::')[0]
        if st['mode'] == 'exec' and mod in CRATE_MODS and known_fns is not None and fn not in known_fns and fn not in model.entry_props:
            continue      # a new function without a contract: nothing is claimed about it (see new_functions)
        if st['mode'] == 'exec' and mod in CRATE_MODS:
            o = obs.setdefault((fn, 'safety'), {'props': set(), 'kind': 'safety', 'texts': ['body: no panic (bounds, overflow, unwrap, assert!), callee preconditions, termination'], 'where': ''})
            o['props'].add('C10')
            o['props'].update(model.entry_props.get(fn, []))
        if st['mode'] == 'exec' and res['unit']['name'] == 'parser' and fn.endswith('::from_str'):
            o = obs.setdefault((fn, 'accepts_exactly_the_grammar_and_names_its_components'), {'props': set(), 'kind': 'trait', 'texts': ['FromStr::from_str ensures Self::from_str_post(s, r) (the post-relation stated in contracts/parser for this type)'], 'where': 'spec/parser/00_strings.rs'})
            o['props'].update(model.entry_props.get(fn, []))
        if st['mode'] == 'proof':
            props = model.lemma_props.get(fn)
            if props:
                o = obs.setdefault((fn, 'lemma'), {'props': set(), 'kind': 'lemma', 'texts': ['lemma statement'], 'where': ''})
                o['props'].update(props)


# --------------------------------------------------------------------------- trusted-base scan

TRUST_PATTERNS = [('assume', r'\bassume\s*\('), ('admit', r'\badmit\s*\(\s*\)'), ('external_body', r'external_body'),
                  ('external', r'verifier::external\b(?!_)'), ('assume_specification', r'assume_specification'),
                  ('uninterp', r'\buninterp\s+spec\s+fn'),
                  ('external_trait_specification', r'external_trait_specification'),
                  ('external_type_specification', r'external_type_specification'),
                  ('assumed_spec_impl', r'impl\s+(?:(?:[\w:]+::)?PartialEqSpecImpl\s+for\s+\w+|FromStrSpecImpl\s+for\s+u8\b)')]


def trusted_scan(model):
    found = []
    for i, l in enumerate(model.lines, 1):
        if '//@@SPLIT-CUT' in l or '@@ISOLATED' in l:
            continue          # framework-inserted path cut: that path is verified in its own split variant
        code = l.split('//')[0]
        for kind, pat in TRUST_PATTERNS:
            if re.search(pat, code):
                # the item it applies to: the next fn/impl/const header at or after this line
                item = ''
                for k in range(i, min(i + 6, len(model.lines) + 1)):
                    m = re.search(r'(?:fn|impl|const|static)\s+([\w:<>&\' ]+?)\s*[({=:;]', model.lines[k - 1].split('//')[0])
                    if m and not re.search(r'assume_specification', model.lines[k - 1]):
                        item = m.group(0).rstrip('({=:;').strip()
                        break
                    m2 = re.search(r'assume_specification.*?\[\s*([^\]]+)\]', model.lines[k - 1])
                    if m2:
                        item = m2.group(1).strip()
                        break
                found.append((kind, item))
    return found


def load_trusted_allow(fname='trusted.txt'):
    p = os.path.join(ROOT, 'contracts', fname)
    allow = []
    if os.path.exists(p):
        for l in open(p):
            l = l.rstrip('\n')
            if not l.strip() or l.startswith('#'):
                continue
            parts = [x.strip() for x in l.split('|')]
            allow.append((parts[0], parts[1], parts[2] if len(parts) > 2 else ''))
    return allow


# --------------------------------------------------------------------------- functions the contracts know

def load_known_functions():
    """contracts/known_functions.txt: every exec function of the verified text on the tree the contracts were written for.
    A function that is NOT in this list is new (extracted helper, renamed function): it has no contract, so a failed
    obligation inside it is a missing precondition and a failed obligation in its callers is a missing postcondition -
    lost proofs, not violations."""
    p = os.path.join(ROOT, 'contracts', 'known_functions.txt')
    if not os.path.exists(p):
        return None
    return {l.strip() for l in open(p) if l.strip() and not l.startswith('#')}


def new_functions(res):
    known = load_known_functions()
    if known is None:
        return set()
    return {fn for fn, st in res['funcs'].items() if st['mode'] == 'exec' and fn.split('::')[0] in CRATE_MODS and fn not in known}


# --------------------------------------------------------------------------- known findings

def load_known():
    p = os.path.join(ROOT, 'known_findings.txt')
    known = []
    if os.path.exists(p):
        for l in open(p):
            l = l.strip()
            m = re.match(r'finding: property=(\S+) obligation=(\S+) site=\[(.*?)\] (.*)$', l)
            if m:
                known.append({'property': m.group(1), 'obligation': m.group(2), 'site': m.group(3), 'what': m.group(4)})
    return known


# --------------------------------------------------------------------------- per-property verdict

def load_props():
    props = {}
    for l in open(os.path.join(ROOT, 'properties.jsonl')):
        l = l.strip()
        if l:
            p = json.loads(l)
            props[p['id']] = p
    return props


def check_property(pid, tier, res=None, vres=None, quiet=False):
    t0 = time.time()
    seed = int(os.environ.get('VERIF_SEED', '0') or 0)
    if res is None:
        res = collect(vacuity=False, tier=tier)
    # a whole unit that could not be built or was rejected: every property its contract files mention (and C10) is undecided
    for uname, why in res.get('failed_units', {}).items():
        if pid in unit_props(uname):
            raise Undecided('verification unit %s could not be decided on this tree (%s) and serves %s' % (uname, why, pid))
    obs = obligations(res)
    mine = {k: v for k, v in obs.items() if pid in v['props']}
    if not mine:
        raise Undecided('no obligation is tagged with %s (vacuity guard)' % pid)
    # a function that had to be left out of the run (isolated) decides nothing: every property its contract entry, its
    # trait's contract or its module-level safety claim (C10) serves is undecided
    for u in res['units']:
        m = u['model']
        decl_props = {}
        for fe in m.info['fn_entries']:
            if fe.get('decl_of_trait') and not fe['has_body']:
                decl_props[(fe['decl_of_trait'], fe['name'])] = set(fe['props'])
        for f in u.get('isolated', []):
            props_f = set(m.entry_props.get(f, [])) | {'C10'}
            t = m.fn_trait.get(f)
            if t:
                props_f |= decl_props.get((t, f.split('::')[-1]), set())
            if pid in props_f:
                raise Undecided('function %s was left out of the run (proof anchor lost or construct outside the verifier\'s reach) and serves %s' % (f, pid))
    # a contract entry whose function no longer exists (renamed / inlined / removed): what it proved is gone
    for u in res['units']:
        for le in u['model'].info.get('lost_entries', []):
            if pid in le['props']:
                raise Undecided('the function %s, whose contract serves %s, no longer exists in the source (renamed, inlined or removed)' % (le['fn'], pid))
    # every function carrying one of my obligations must really have been verified by Verus
    missing = sorted({k[0] for k in mine if k[0] not in res['funcs']})
    if missing:
        iso = sorted({f for u in res['units'] for f in u.get('isolated', [])})
        raise Undecided('functions under contract were not verified by Verus (external / lost?): %s%s' % (', '.join(missing), ('  [isolated after a lost proof anchor: %s]' % ', '.join(iso)) if iso else ''))
    # direct failures
    failed = {}
    resource = []
    for e in res['errors']:
        key = (e.get('fn'), e.get('label'))
        if e['kind'] == 'resource':
            if key[0] and any(k[0] == key[0] for k in mine):
                resource.append(e)
            continue
        if key in mine:
            failed.setdefault(key, []).append(e)
        elif e.get('label') not in ('safety',) and e.get('props') and pid in e.get('props', []):
            failed.setdefault(key, []).append(e)
    # functions whose proof hints / loop invariants could not be anchored (the code around them was restructured):
    # a failure there may be a lost proof rather than a violation -> undecided unless confirmed by a counterexample
    lost_hints = [h for u in res['units'] for h in u['model'].info.get('lost_hints', [])]
    tainted = {h['fn'] for h in lost_hints}
    # callers of a function that had to be left out of the run (unsupported construct, no contract): their failures are
    # lost proofs, not violations
    for u in res['units']:
        for fid in u.get('isolated_plain', []):
            short = fid.split('::')[-1]
            m = u['model']
            for k, (ln, caller) in enumerate(m.fns):
                end = m.fns[k + 1][0] if k + 1 < len(m.fns) else len(m.lines) + 1
                if caller != fid and re.search(r'\b%s\s*\(' % re.escape(short), '\n'.join(m.lines[ln:end - 1])):
                    tainted.add(caller)
    # new functions (not in contracts/known_functions.txt, no contract): their callers see no postcondition, and their own
    # failures are missing preconditions
    newf = new_functions(res)
    for u in res['units']:
        m = u['model']
        for fid in sorted(newf):
            if fid not in u['funcs']:
                continue
            short = fid.split('::')[-1]
            for k, (ln, caller) in enumerate(m.fns):
                end = m.fns[k + 1][0] if k + 1 < len(m.fns) else len(m.lines) + 1
                if caller != fid and re.search(r'\b%s\s*\(' % re.escape(short), '\n'.join(m.lines[ln:end - 1])):
                    tainted.add(caller)
    # clauses whose label ends in '~' pin a detail the property statements do not fix (e.g. WHICH error variant a refused
    # call returns) but that callers' proofs rely on: when such a clause fails the proof chain is broken, not the
    # property - undecided unless the replay probe finds a failing input
    detail = {k for k in failed if (k[1] or '').endswith('~')}
    tainted_failed = {k: v for k, v in failed.items() if k[0] in tainted or k in detail}
    failed = {k: v for k, v in failed.items() if k[0] not in tainted and k not in detail}
    if pid == 'C10':
        for e in res['errors']:
            if e.get('fn') in newf and e['kind'] != 'resource':
                tainted_failed.setdefault((e.get('fn'), 'new_function_without_contract'), []).append(e)
    # functions that failed without any mapped diagnostic (should not happen) -> undecided
    fns_mine = {k[0] for k in mine}
    for fn in fns_mine:
        st = res['funcs'][fn]
        if not st['ok'] and not any(e.get('fn') == fn for e in res['errors']):
            resource.append({'fn': fn, 'label': '?', 'kind': 'resource', 'message': 'function failed without a diagnostic'})
    # vacuity probe
    vac_note = None
    if vres is None and (tier == 'thorough' or os.environ.get('VERIF_VACUITY', '1') == '1'):
        vres = collect(vacuity=True)
    vac_fail = []
    if vres is not None:
        probes = {}
        for vu in vres['units']:
            for ln, mt in vu['model'].line_meta.items():
                if mt['kind'] == 'vacuity' and mt['fn'] is None:
                    mt['fn'] = vu['model'].fn_at(ln)
                if mt['kind'] == 'vacuity' and mt['fn'] in fns_mine:
                    probes[(mt['fn'], mt['label'])] = False
        for e in vres['errors']:
            k = (e.get('fn'), e.get('label'))
            if k in probes:
                probes[k] = True
        vac_fail = sorted(k for k, hit in probes.items() if not hit)
        vac_note = '%d must-fail probes, %d failed as required' % (len(probes), len(probes) - len(vac_fail))
        if vac_fail:
            raise Undecided('vacuity guard: assert(false) is provable in %s (contradictory precondition/invariant?)' % vac_fail)
    # trusted base
    found = []
    allow = []
    for u in res['units']:
        f_u = trusted_scan(u['model'])
        a_u = load_trusted_allow(u['unit']['trusted'])
        allow_set = {(a[0], a[1]) for a in a_u}
        unlisted = sorted({f for f in f_u if f not in allow_set})
        if unlisted:
            raise Undecided('trusted-base scan (unit %s): unlisted assumption(s) in the woven text: %s' % (u['unit']['name'], unlisted[:8]))
        # a unit's assumptions matter to this property only if the property has obligations in that unit
        if any(res['funcs'].get(k[0], {}).get('unit') == u['unit']['name'] for k in mine):
            found += [(u['unit']['name'],) + f for f in f_u]
            allow += [(u['unit']['name'],) + a for a in a_u]
    known = load_known()
    violations = []
    known_hits = []
    os.makedirs(os.path.join(OUT, 'replays'), exist_ok=True)
    for key, errs in sorted(failed.items(), key=lambda kv: str(kv[0])):
        oid = '%s#%s' % key
        for e in errs:
            kf = [k for k in known if k['property'] == pid and k['obligation'] == oid and k['site'] == e.get('site', '')]
            if kf:
                known_hits.append((oid, kf[0]['what']))
                continue
            violations.append((oid, e))
    verdict = 0
    lines_out = []
    for oid, what in sorted(set(known_hits)):
        lines_out.append('KNOWN-FINDING: property=%s %s (%s)' % (pid, what, oid))
    # counterexample search on the real code: whenever the proof is not clean for this property, and always in the thorough tier
    probe = None
    # C10 also covers code outside the verified text (the protocol-name parser, R12): there the probe is the only check,
    # so it runs in every tier for that property
    if violations or tainted_failed or resource or tier == 'thorough' or pid in ALWAYS_PROBE:
        probe = P.run_probe(REPO, BUILD)
    pf = (probe or {}).get('findings', {}).get(pid, [])
    pf = [f for f in pf if not any(k['property'] == pid and k['obligation'] == 'probe' and k['site'] in f for k in known)]
    if pf and not violations:
        # no directly failed obligation (green proof, or undecided), but a concrete failing input exists on the real code
        verdict = 1
        rp = os.path.join(OUT, 'replays', '%s-probe.json' % pid)
        json.dump({'property': pid, 'failed_obligation': ('; '.join(sorted('%s#%s' % k for k in tainted_failed)) or 'none discharged-status changed') ,
                   'counterexample': pf[:10], 'found_by': 'replay probe probes/vp_probe.rs on the real code (oracle: cacophony test vectors / the property statement)',
                   'reproduce': 'python3 framework/probe.py   (prints the PROBE-FINDING lines for the current /repo working tree)',
                   'note': 'The deductive check could not decide this property on this tree (lost proof anchor / construct outside the verifier\'s reach) or holds for the verified text; the probe exhibits a concrete failing input.',
                   'repo': REPO}, open(rp, 'w'), indent=1)
        lines_out.append('VIOLATION property=%s replay=%s' % (pid, rp))
    if violations:
        verdict = 1
        byo = {}
        for oid, e in violations:
            byo.setdefault(oid, []).append(e)
        for oid, es in byo.items():
            rp = os.path.join(OUT, 'replays', '%s-%s.json' % (pid, re.sub(r'[^A-Za-z0-9_.#-]+', '_', oid)))
            json.dump({'property': pid, 'failed_obligation': oid,
                       'clause': es[0].get('clause', ''), 'contract_location': es[0].get('where', ''),
                       'sites_in_extracted_code': [x.get('site', '') for x in es],
                       'verifier': 'verus ' + verus_version(), 'verifier_output': [x.get('rendered', '') for x in es],
                       'counterexample': pf[:10] if pf else None,
                       'reproduce': 'python3 framework/probe.py' if pf else None,
                       'note': ('Verus gives no counterexample; the replay probe found concrete failing inputs on the real code (listed under counterexample).' if pf else
                                'Verus gives no counterexample and the replay probe (probes/vp_probe.rs) found no failing input for this property.'),
                       'repo': REPO}, open(rp, 'w'), indent=1)
            lines_out.append('VIOLATION property=%s replay=%s obligation=%s%s' % (pid, rp, oid, '' if pf else ' no-failing-input-found'))
    elif tainted_failed and not pf:
        for l in lines_out:
            print(l)
        raise Undecided('obligation(s) %s failed in function(s) whose proof hints lost their anchor (%s)%s; no counterexample available -> not reported as a violation'
                        % (sorted('%s#%s' % k for k in tainted_failed), sorted({h['anchor'] for h in lost_hints if h['fn'] in {k[0] for k in tainted_failed}})[:3],
                           ((' or that are / call new functions without a contract (%s)' % ', '.join(sorted(newf))) if newf else '') + (' or that only pin a detail the property does not state (label~)' if detail else '')))
    elif resource and not pf:
        raise Undecided('resource limit / solver give-up in %s' % sorted({e.get('fn') for e in resource}))
    # evidence
    fn_list = sorted(fns_mine)
    ms = sum(res['funcs'][f]['ms'] for f in fn_list if f in res['funcs'])
    kf_obs = sorted({oid for oid, _ in known_hits})
    n_ob = len(mine) - len(kf_obs)          # obligations claimed = all tagged obligations minus those listed as known findings
    n_dis = n_ob - len({k for k in failed if ('%s#%s' % k) not in kf_obs})
    samples = []
    for k, v in sorted(mine.items(), key=lambda kv: str(kv[0]))[:12]:
        samples.append({'obligation': '%s#%s' % k, 'kind': v['kind'], 'clause': v['texts'][:2], 'status': 'FAILED' if k in failed else 'discharged'})
    prop = load_props().get(pid, {})
    fset = {(f[0], f[1], f[2]) for f in found}
    trusted = sorted({'[%s] %s: %s%s' % (a[0], a[1], a[2], (' - ' + a[3]) if a[3] else '') for a in allow if (a[0], a[1], a[2]) in fset})
    axs = sorted({a for u in res['units'] for a in axioms_used(u['model'], [k[0] for k in mine if k[1] == 'lemma'])})
    ev = {
        'property_id': pid, 'tier': tier, 'seed': seed, 'level': 'proof',
        'coverage': {
            'obligations': n_ob, 'discharged': n_dis,
            'checker_cmd': ' ; '.join('verus %s %s' % (os.path.relpath(u['path'], ROOT), ' '.join(VERUS_FLAGS + u['unit']['flags'])) for u in res['units']),
            'second_configuration_p256_MAXDHLEN_65': res.get('confirm_units') or 'thorough tier only',
            'path_split_verification': [x for u in res['units'] for x in getattr(u['model'], 'split_info', [])],
            'units': [{'unit': u['unit']['name'], 'verus_wall_s': round(u['wall_s'], 1), 'cache_hit': u['cache_hit'], 'verified_functions': u['verified'], 'failed_functions': u['nerrors'],
                       'extraction_rule_sites': u['ex'].counts, 'not_in_verified_text': u['ex'].dropped} for u in res['units']],
            'trusted_base': trusted,
            'samples': samples,
            'functions_under_contract': fn_list,
            'backend': 'Verus %s (Z3)' % verus_version(),
            'solver_ms_functions_of_this_property': ms,
            'verus_wall_s_whole_file': round(res['wall_s'], 1),
            'result_cache_hit': res['cache_hit'],
            'whole_file_verified_functions': res['verified'], 'whole_file_failed_functions': res['nerrors'],
            'axioms_used': axs,
            'detail_clauses_among_the_obligations': sorted('%s#%s' % k for k in mine if (k[1] or '').endswith('~')),
            'detail_clauses_note': 'a label ending in ~ pins a detail the property statements do not fix (e.g. which error variant); discharged here; if one fails the property is undecided, not violated (DESIGN.md 2.2)',
            'functions_in_the_source_without_a_contract_entry_or_baseline': sorted(newf),
            'contract_entries_whose_function_is_missing': sorted({le['fn'] for u in res['units'] for le in u['model'].info.get('lost_entries', [])}),
            'known_findings_excluded_from_the_claim': [{'obligation': oid, 'what': what} for oid, what in sorted(set(known_hits))],
            'vacuity_probe': vac_note or 'not run in this tier',
            'replay_probe': ({'ran': True, 'tests': probe.get('tests'), 'findings_for_this_property': pf, 'wall_s': probe.get('wall_s'), 'cache_hit': probe.get('cache_hit'), 'error': probe.get('error')}
                             if probe else {'ran': False, 'why': 'the proof is clean for this property; the counterexample search runs only on failure/undecided or in the thorough tier'}),
            'all_obligations': sorted('%s#%s' % k for k in mine),
        },
        'assumptions': ASSUMPTIONS_COMMON + PROP_ASSUMPTIONS.get(pid, []) + (['named axioms used by the lemmas of this property: ' + ', '.join(axs) + ' (status of each: contracts/trusted.txt, DESIGN.md section 3)'] if axs else ['no axiom about the primitives is used by this property']),
        'wall_s': round(time.time() - t0 + (0 if res['cache_hit'] else res['wall_s']), 2),
        'violations': len({oid for oid, _ in violations}) + (1 if (pf and not violations) else 0),
    }
    os.makedirs(os.path.join(OUT, 'evidence'), exist_ok=True)
    json.dump(ev, open(os.path.join(OUT, 'evidence', pid + '.json'), 'w'), indent=1)
    if not quiet:
        for l in lines_out:
            print(l)
        print('%s: %d obligations on %d functions, %d discharged, verdict=%s (%s)' % (
            pid, n_ob, len(fn_list), n_dis, 'HOLDS' if verdict == 0 else 'VIOLATION', 'cached' if res['cache_hit'] else '%.0fs verus' % res['wall_s']))
    return verdict


ALWAYS_PROBE = {'C10'}

ASSUMPTIONS_COMMON = [
    'Extraction rules R1-R24 incl. R7p (framework/extract.py, DESIGN.md 2.1) preserve the semantics of /repo/src; dropped items are unverified',
    'Trait contracts of Hash/Cipher/Dh/Random/CryptoResolver are ASSUMED for implementations outside the verified text (Kyber, custom resolvers); for resolvers/default.rs (incl. P-256, XChaChaPoly) and resolvers/ring.rs they are proved relative to ASSUMED contracts of the third-party crates (spec/deps/rustcrypto.rs, spec/deps/ring.rs)',
    'The standard algorithms (SHA-2, BLAKE2, ChaCha20-Poly1305, AES-256-GCM, X25519) are uninterpreted functions; randomness is a deterministic function of a hidden RNG state (gen_bytes/gen_next)',
    'Path-split verification (DESIGN.md 2.3): functions with @split cases are verified one case per query, the other cases cut by framework-inserted assume(false)',
    'The transcription of Noise rev 34 in /verif/spec is faithful',
    'vstd specifications of core/alloc (slices, Vec, Option, Result), Verus, Z3, rustc are sound',
    'ASSUME-ADDR: payload.len() + message.len() + 128 <= usize::MAX for the two buffers of one call',
    'Machine arithmetic is modelled exactly (every usize/u64 operation carries an overflow obligation); usize width left open (32 or 64 bit)',
    'Features: default + std; hfs, risky-raw-split, nightly and no_std builds are not verified',
    'Arithmetic in the initialisers of const/static items is left to rustc (compile-time evaluation rejects overflow); a Verus overflow diagnostic there is not counted as an obligation',
]
PROP_ASSUMPTIONS = {
    'C13': ["Parser unit: the std contracts stated in spec/parser/00_strings.rs are ASSUMED (str::parse = FromStr::from_str; s[a..b] returns the byte sub-range; "
            "<u8 as FromStr>::from_str accepts an optional '+' then decimal digits with value <= 255; <[T]>::contains; derive(PartialEq) on HandshakeModifier is structural); "
            "the shims of R20-R22 (str_eq, split, starts_with) behave as the std calls they wrap; axiom ax_str_len_fits",
            "The grammar is stated over the string's char sequence with split-on-separator fields (spec/parser/10_grammar.rs); pskN uses std's u8 syntax (psk01 = psk1); "
            "the hfs variant of NoiseParams::from_str (feature hfs) is not verified"],
}


def undecided_fallback(pids, tier, why):
    """the verifier could not even be run on this tree (a contract lost its anchor, or the code uses a construct Verus
    rejects).  That is never an alarm by itself; but a concrete failing input found on the real code is."""
    print('UNDECIDED (deductive check): %s' % why.split('\n')[0][:400])
    probe = P.run_probe(REPO, BUILD)
    known = load_known()
    rc = 2
    os.makedirs(os.path.join(OUT, 'replays'), exist_ok=True)
    os.makedirs(os.path.join(OUT, 'evidence'), exist_ok=True)
    for pid in pids:
        pf = [f for f in probe.get('findings', {}).get(pid, []) if not any(k['property'] == pid and k['obligation'] == 'probe' and k['site'] in f for k in known)]
        if pf:
            rp = os.path.join(OUT, 'replays', '%s-probe.json' % pid)
            json.dump({'property': pid, 'failed_obligation': 'undecided: ' + why[:600], 'counterexample': pf[:10],
                       'found_by': 'replay probe probes/vp_probe.rs on the real code', 'reproduce': 'python3 framework/probe.py', 'repo': REPO}, open(rp, 'w'), indent=1)
            print('VIOLATION property=%s replay=%s' % (pid, rp))
            rc = 1
        else:
            print('UNDECIDED %s: %s; the replay probe found no failing input%s' % (pid, why.split('\n')[0][:200], (' (probe error: %s)' % probe['error'][:200]) if probe.get('error') else ''))
        json.dump({'property_id': pid, 'tier': tier, 'seed': int(os.environ.get('VERIF_SEED', '0') or 0), 'level': 'other',
                   'coverage': {'explanation': 'The deductive check was UNDECIDED on this tree (%s). Counterexample search on the real code: %d probe tests, findings for this property: %s' % (why.split('\n')[0][:300], len(probe.get('tests', {})), pf[:5]),
                                'replay_probe': {'tests': probe.get('tests'), 'findings_for_this_property': pf}},
                   'assumptions': ['undecided run: no proof obligations were discharged'], 'wall_s': probe.get('wall_s', 0.0), 'violations': 1 if pf else 0},
                  open(os.path.join(OUT, 'evidence', pid + '.json'), 'w'), indent=1)
    return rc


def main(argv):
    if len(argv) >= 1 and argv[0] == 'build':
        try:
            ex, woven, info, path = build(vacuity='--vacuity' in argv)
        except (X.AnchorLost, W.AnchorLost) as e:
            print('UNDECIDED: anchor lost: %s' % e)
            return 2
        print('woven %s: %d lines, %d contracted fns' % (path, woven.count('\n'), len(info['fn_entries'])))
        return 0
    if len(argv) >= 2 and argv[0] == 'replay':
        d = json.load(open(argv[1]))
        print(json.dumps({k: d[k] for k in d if k != 'verifier_output'}, indent=1))
        for o in d.get('verifier_output', []):
            print(o)
        return 0
    if argv and argv[0] == 'write-known-functions':
        res = collect(vacuity=False, tier='thorough')
        fns = sorted(fn for fn, st in res['funcs'].items() if st['mode'] == 'exec' and fn.split('::')[0] in CRATE_MODS)
        with open(os.path.join(ROOT, 'contracts', 'known_functions.txt'), 'w') as f:
            f.write('# exec functions of the verified text on the tree the contracts were written for (python3 framework/check.py write-known-functions)\n')
            f.write('\n'.join(fns) + '\n')
        print('%d functions' % len(fns))
        return 0
    tier = os.environ.get('VERIF_TIER', 'quick')
    if '--tier' in argv:
        tier = argv[argv.index('--tier') + 1]
    pids = [a for a in argv if re.match(r'C\d\d$', a)]
    if argv and argv[0] == 'all':
        pids = sorted(load_props().keys())
    if not pids:
        print(__doc__)
        return 2
    rc = 0
    try:
        res = collect(vacuity=False, tier=tier)
        vres = None
        if tier == 'thorough' or os.environ.get('VERIF_VACUITY', '1') == '1':
            vres = collect(vacuity=True)
    except (X.AnchorLost, W.AnchorLost, Undecided) as e:
        why = ('anchor lost: %s' % e) if not isinstance(e, Undecided) else str(e)
        return undecided_fallback(pids, tier, why)
    for pid in pids:
        try:
            r = check_property(pid, tier, res=res, vres=vres)
            if r == 1:
                rc = 1
        except Undecided as e:
            if 'no obligation is tagged' in str(e):
                print('UNDECIDED %s: %s' % (pid, e))
                r = 2
            else:
                r = undecided_fallback([pid], tier, str(e))
            if r == 1:
                rc = 1
            elif rc == 0:
                rc = 2
    return rc


if __name__ == '__main__':
    sys.exit(main(sys.argv[1:]))
