#!/bin/bash
# dev loop: framework/dev.sh [verus args, e.g. --verify-module cipherstate]
cd /verif && python3 framework/check.py build >/dev/null || { python3 framework/check.py build; exit 2; }
cd build && verus snow_verus.rs --cfg 'feature="std"' --cfg 'feature="default-resolver"' --triggers-mode silent --multiple-errors 30 "$@" 2>&1 | python3 -c "
import sys,re
lines=sys.stdin.read().split('\n')
i=0
while i<len(lines):
    l=lines[i]
    if l.startswith('error') or l.startswith('verification results'):
        loc=''; src=''; extra=''
        for j in range(i+1,min(i+5,len(lines))):
            m=re.match(r'\s+--> (\S+)',lines[j])
            if m: loc=m.group(1).replace('snow_verus.rs:',''); break
        k=0
        for j in range(i+1,min(i+14,len(lines))):
            m=re.match(r'\s*(\d+) \|\s?(.*)',lines[j])
            if m:
                k+=1
                if k==1: src=m.group(1)+': '+m.group(2).strip()[:100]
                elif k==2: extra=' || '+m.group(1)+': '+m.group(2).strip()[:100]; break
            if lines[j].startswith('error'): break
        print(l[:70],'|',loc,'|',src,extra)
    i+=1
"
