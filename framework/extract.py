#!/usr/bin/env python3
"""Mechanical extraction of /repo/src into one Verus-checkable file (rules R1-R14 of DESIGN.md 3.1).

Every rule is a fixed textual rewrite with a recorded site count.  A rule whose anchor is missing
(or matches an unexpected number of times) raises AnchorLost -> the run is UNDECIDED (exit 2),
never a violation.  Function bodies are otherwise copied byte for byte.
"""
import os
import re


class AnchorLost(Exception):
    pass


class Extracted:
    def __init__(self):
        self.text = ''
        self.counts = {}
        self.dropped = []      # human-readable list of what is not in the verified text
        self.modules = []      # (module path, source file)


CORE_MODULES = ['constants', 'error', 'utils', 'types', 'cipherstate', 'symmetricstate',
                'handshakestate', 'transportstate', 'stateless_transportstate']


def _sub(ex, rule, pat, repl, s, flags=0, expect=None, minimum=None):
    s2, n = re.subn(pat, repl, s, flags=flags)
    ex.counts[rule] = ex.counts.get(rule, 0) + n
    if expect is not None and n != expect:
        raise AnchorLost('rule %s: expected %d site(s), found %d (pattern %r)' % (rule, expect, n, pat[:60]))
    if minimum is not None and n < minimum:
        raise AnchorLost('rule %s: expected >= %d site(s), found %d (pattern %r)' % (rule, minimum, n, pat[:60]))
    return s2


def _clean(ex, s):
    s = _sub(ex, 'R2-innerdoc', r'(?m)^//!.*\n', '', s)
    s = _sub(ex, 'R2-innerattr', r'(?m)^#!\[.*\n', '', s)
    s = _sub(ex, 'R2-tests', r'(?ms)^#\[cfg\(test\)\].*', '', s)
    s = _sub(ex, 'R2-display', r'(?ms)^impl(?:<[^>{]*>)? (?:core::|std::)?fmt::Display for [^{]+\{.*?^}\n', '', s)
    s = _sub(ex, 'R2-debug', r'(?ms)^impl(?:<[^>{]*>)? (?:core::|std::)?fmt::Debug for [^{]+\{.*?^}\n', '', s)
    s = _sub(ex, 'R2-debug', r"(?ms)^impl Debug for Builder<'_> \{.*?^}\n", '', s)
    n = s.count('impl core::error::Error for Error {}')
    ex.counts['R2-errortrait'] = ex.counts.get('R2-errortrait', 0) + n
    s = s.replace('impl core::error::Error for Error {}', '')
    # R4: panicking assertions become proof obligations
    s = _sub(ex, 'R4', r'assert_eq!\(\s*([^,;]+?),\s*([^,;]+?),\s*"[^"]*",?\s*\);', r'crate::vassert(\1 == \2);', s)
    s = _sub(ex, 'R4', r'assert!\(\s*([^;]+?),\s*"[^"]*",?\s*\);', r'crate::vassert(\1);', s)
    # R5 / R6: foreign crates
    s = _sub(ex, 'R6', r'(?m)^use rand_core::.*;\n', '', s)
    s = _sub(ex, 'R6', r'(?m)^use subtle::.*;\n', '', s)
    s = _sub(ex, 'R5', r'pub trait Random: CryptoRng \+ RngCore \+ Send \+ Sync \{\}',
             'pub trait Random: Send + Sync {}', s)
    # R11
    s = _sub(ex, 'R11-closure', r'\|_\|', '|_e|', s)
    n = s.count('Box<dyn CryptoResolver + Send>')
    ex.counts['R11-send'] = ex.counts.get('R11-send', 0) + n
    s = s.replace('Box<dyn CryptoResolver + Send>', 'Box<dyn CryptoResolver>')
    # R18: Verus leaves the error conversion done by `?` unspecified unless it is the identity; make the
    # (language-defined) From::from explicit so that `?` converts Error -> Error:  x.ok_or(K::V)?  ->  x.ok_or(Error::from(K::V))?
    s = _sub(ex, 'R18', r'\.ok_or\(((?:StateProblem|InitStage|Prerequisite|PatternProblem)::\w+)\)\?',
             r'.ok_or(crate::error::Error::from(\1))?', s)
    # R8 visibility
    s = _sub(ex, 'R8', r'pub\(crate\)', 'pub', s)
    return s


def _pub_fields(ex, s):
    """R8: private named struct fields -> pub (inside `struct X {` blocks only)."""
    out = []
    i = 0
    for m in re.finditer(r'(?m)^(pub )?struct \w+(<[^>]*>)? \{\n', s):
        j = s.index('\n}', m.end())
        body = s[m.end():j]
        pat = r'(?m)^(\s+)(?!pub |//|#)(\w+\s*:)'
        ex.counts['R8-fields'] = ex.counts.get('R8-fields', 0) + len(re.findall(pat, body))
        out.append(s[i:m.end()])
        out.append(re.sub(pat, r'\1pub \2', body))
        i = j
    out.append(s[i:])
    s = ''.join(out)
    # tuple structs: `struct X(pub A, pub B)` are already pub in snow
    return s


PRELUDE = '''#![allow(unused_imports, dead_code, unused_variables, unused_mut, unused_parens, unused_braces)]
use vstd::prelude::*;
verus! {
pub fn vassert(b: bool) requires b {}
}
macro_rules! copy_slices {
    ($inslice:expr, $outslice:expr) => {
        $outslice[..$inslice.len()].copy_from_slice(&$inslice[..])
    };
}
macro_rules! static_slice {
    ($_type:ty: $($item:expr),*) => ({
        let s: &'static [$_type] = &[$($item),*];
        s
    });
}
pub mod vshim {
use vstd::prelude::*;
verus! {
// the UTF-8 bytes of a &str: vstd's encoding function (str::len / str::as_bytes are specified by vstd in terms of it)
pub open spec fn utf8(cs: Seq<char>) -> Seq<u8> { vstd::utf8::encode_utf8(cs) }
// AXIOM: a str's UTF-8 byte length fits usize (type invariant of str; vstd states str::len as a clipped cast)
#[verifier::external_body] pub proof fn ax_str_len_fits(s: &str) ensures utf8(s@).len() <= usize::MAX {}
}
}
pub use crate::error::Error;
//@SPEC-MODULES@
'''


def _wrap(name, body, src):
    return 'pub mod %s {\n//@@SRC %s\nuse vstd::prelude::*;\nverus! {\n%s\n} // verus!\n}\n' % (name, src, body)


R24_TRAITS = r'(?:CryptoResolver|Cipher|Hash|Dh|Random|Kem)'


def known_impls():
    p = os.path.join(os.path.dirname(os.path.dirname(os.path.abspath(__file__))), 'contracts', 'known_impls.txt')
    if not os.path.exists(p):
        return None
    return {l.strip() for l in open(p) if l.strip() and not l.startswith('#')}


def impl_headers(text):
    return [re.sub(r'\s+', ' ', m.group(1)).strip() for m in re.finditer(r'(?m)^(impl(?:<[^>{]*>)?\s+(?:[\w:]+::)?%s\s+for\s+[^{]+?)\s*\{' % R24_TRAITS, text)]


def externalise_unknown_impls(ex):
    """R24: an implementation of one of the primitive traits that the contracts do not know (not in
    contracts/known_impls.txt) stays outside the verified text; for its objects the trait contract is an assumption, as for
    any custom resolver.  (A new impl cannot supply the ghost members of the trait contract, and Verus rejects the crate.)"""
    known = known_impls()
    if known is None:
        return
    def repl(m):
        h = re.sub(r'\s+', ' ', m.group(1)).strip()
        if h in known:
            return m.group(0)
        ex.counts['R24'] = ex.counts.get('R24', 0) + 1
        ex.dropped.append('R24: `%s` is not an implementation the contracts know: left outside the verified text (#[verifier::external]); the trait contract is ASSUMED for its objects' % h)
        return '#[verifier::external] /*R24*/\n' + m.group(0)
    ex.text = re.sub(r'(?m)^(impl(?:<[^>{]*>)?\s+(?:[\w:]+::)?%s\s+for\s+[^{]+?)\s*\{' % R24_TRAITS, repl, ex.text)


def extract(repo):
    ex = Extracted()

    def rd(p):
        return open(os.path.join(repo, 'src', p)).read()

    # the two crate macros must still be what the prelude re-states (R3)
    lib = rd('lib.rs')
    if '$outslice[..$inslice.len()].copy_from_slice(&$inslice[..])' not in lib:
        raise AnchorLost('R3: copy_slices! definition changed in lib.rs')
    if "static STATIC_SLICE: &'static [$_type] = &[$($item),*];" not in lib:
        raise AnchorLost('R3: static_slice! definition changed in lib.rs')
    ex.counts['R3-lib-macros'] = 2

    out = [PRELUDE]
    for m in CORE_MODULES:
        body = _clean(ex, rd(m + '.rs'))
        if m == 'symmetricstate':
            pass
        out.append(_wrap(m, _pub_fields(ex, body), m + '.rs'))
        ex.modules.append((m, m + '.rs'))

    # ---- params ----
    pm = _clean(ex, rd('params/mod.rs'))
    pm = _sub(ex, 'R1-nest', r'mod patterns;\n', '', pm, expect=1)
    pm = _sub(ex, 'R12', r'impl FromStr for', '#[verifier::external]\nimpl FromStr for', pm, minimum=5)
    pp = _clean(ex, rd('params/patterns.rs'))
    m = re.search(r'(?ms)^pattern_enum! \{\n\s*HandshakePattern \{(.*?)\}\n\}\n', pp)
    if not m:
        raise AnchorLost('R7: pattern_enum! invocation not found')
    variants = [v.strip() for v in re.sub(r'//.*', '', m.group(1)).replace('\n', ' ').split(',') if v.strip()]
    ex.counts['R7-variants'] = len(variants)
    # the derive list is taken from the macro definition (default: the one of the pinned tree)
    dm = re.search(r'(?ms)^macro_rules! pattern_enum \{.*?#\[derive\(([^)]*)\)\]\s*\n\s*pub enum \$name', pp)
    derives = dm.group(1) if dm else 'Copy, Clone, PartialEq, Debug'
    enum = ('#[allow(missing_docs)]\n#[derive(' + derives + ')]\npub enum HandshakePattern {\n'
            + ',\n'.join(variants) + ',\n}\n'
            + "#[verifier::external]\npub const SUPPORTED_HANDSHAKE_PATTERNS: &'static [HandshakePattern] = &["
            + ','.join('HandshakePattern::' + v for v in variants) + '];\n'
            + '#[verifier::external]\nimpl FromStr for HandshakePattern { type Err = Error; fn from_str(s: &str) -> Result<Self, Self::Err> { match s {'
            + ' '.join('"%s" => Ok(HandshakePattern::%s),' % (v, v) for v in variants)
            + ' _ => Err(PatternProblem::UnsupportedHandshakeType.into()) } } }\n'
            + '#[verifier::external]\nimpl HandshakePattern { pub fn as_str(self) -> &\'static str { match self {'
            + ' '.join('HandshakePattern::%s => "%s",' % (v, v) for v in variants) + ' } } }\n')
    pp = pp.replace(m.group(0), enum)
    pp = _sub(ex, 'R7', r'(?ms)^macro_rules! pattern_enum \{.*?^}\n', '', pp, expect=1)
    # R3: message_vec! - the loop of the macro body moves verbatim into a function
    mv = re.search(r'(?ms)^macro_rules! message_vec \{\n    \(\$\(\$item:expr\),\*\) => \(\{\n'
                   r'        let token_groups: &\[&\[Token\]\] = &\[\$\(\$item\),\*\];\n(.*?)    \}\);\n\}\n', pp)
    if not mv:
        raise AnchorLost('R3: message_vec! definition not found / changed shape')
    ex.counts['R3-message_vec'] = 1
    body = mv.group(1)
    pp = pp.replace(mv.group(0), '''macro_rules! message_vec {
    ($($item:expr),*) => ({
        let token_groups: &[&[Token]] = &[$($item),*];
        message_vec_fn(token_groups)
    });
}
fn message_vec_fn(token_groups: &[&[Token]]) -> MessagePatterns {
%s}
''' % body)
    for t in ['HandshakeModifier', 'HandshakeModifierList', 'HandshakeChoice']:
        pp = _sub(ex, 'R12', r'impl FromStr for %s \{' % t, '#[verifier::external]\nimpl FromStr for %s {' % t, pp, expect=1)
    pp = _sub(ex, 'R12', r'    fn parse_pattern_and_modifier\(', '    #[verifier::external]\n    fn parse_pattern_and_modifier(', pp, expect=1)
    pp = _sub(ex, 'R12', r'    pub fn is_fallback\(', '    #[verifier::external]\n    pub fn is_fallback(', pp, expect=1)
    pp = _pub_fields(ex, pp)
    pm = _pub_fields(ex, pm)
    out.append('pub mod params {\nuse vstd::prelude::*;\npub mod patterns {\n//@@SRC params/patterns.rs\nuse vstd::prelude::*;\nverus! {\n%s\n} // verus!\n}\n//@@SRC params/mod.rs\nverus! {\n%s\n} // verus!\n}\n' % (pp, pm))
    ex.modules += [('params::patterns', 'params/patterns.rs'), ('params', 'params/mod.rs')]

    # ---- builder ----
    b = _clean(ex, rd('builder.rs'))
    b = _sub(ex, 'R2-keypair-eq', r'(?ms)^impl PartialEq for Keypair \{.*?^}\n', '', b, expect=1)
    b = _sub(ex, 'R11-params', r'fn resolve_kem\(\s*_: Box<dyn CryptoResolver>,\s*_: &mut HandshakeState,?\s*\)',
             'fn resolve_kem(_a0: Box<dyn CryptoResolver>, _a1: &mut HandshakeState)', b)
    # R9 / R11-params are rewrites inside one function body: when the code there has been rewritten the rule simply does
    # not apply (if what replaced it is outside Verus' reach, that one function is isolated by the checker, not the crate)
    b = _sub(ex, 'R9', r'for \(i, psk\) in self\.psks\.iter\(\)\.enumerate\(\) \{',
             'for i in 0..self.psks.len() { let psk = &self.psks[i];', b)

    def r10(mo):
        head, body = mo.group(1), mo.group(2)
        ex.counts['R10'] = ex.counts.get('R10', 0) + 1
        return re.sub(r'\(\s*mut self', '(self', head, count=1) + ' {\n        let mut this = self;' + re.sub(r'\bself\b', 'this', body) + '\n    }\n'
    b = re.sub(r'(?ms)^(    pub fn \w+\(\s*mut self[^{]*?) \{(.*?)\n    \}\n', r10, b)
    b = _pub_fields(ex, b)
    out.append(_wrap('builder', b, 'builder.rs'))
    ex.modules.append(('builder', 'builder.rs'))

    # ---- resolvers/mod.rs ----
    r = _clean(ex, rd('resolvers/mod.rs'))
    r = _sub(ex, 'R2-resolvers', r'(?ms)^/// The default primitive resolver\.\n.*?mod ring;\n', '', r, expect=1)
    r = _sub(ex, 'R2-resolvers', r'(?ms)^#\[cfg\(feature = "(default|ring)-resolver"\)\]\npub use .*?;\n', '', r, expect=2)
    r = _pub_fields(ex, r)
    r += '''
// R14 skeleton: the built-in resolver's bodies construct third-party objects; they are verified
// in the wrapper unit (R16).  In the core unit DefaultResolver is only a name that Builder::new refers to.
pub struct DefaultResolver;
impl CryptoResolver for DefaultResolver {
    #[verifier::external_body] fn resolve_rng(&self) -> Option<Box<dyn Random>> { unimplemented!() }
    #[verifier::external_body] fn resolve_dh(&self, choice: &DHChoice) -> Option<Box<dyn Dh>> { unimplemented!() }
    #[verifier::external_body] fn resolve_hash(&self, choice: &HashChoice) -> Option<Box<dyn Hash>> { unimplemented!() }
    #[verifier::external_body] fn resolve_cipher(&self, choice: &CipherChoice) -> Option<Box<dyn Cipher>> { unimplemented!() }
}
'''
    out.append(_wrap('resolvers', r, 'resolvers/mod.rs'))
    ex.modules.append(('resolvers', 'resolvers/mod.rs'))
    out.append('fn main() {}\n')
    ex.text = '\n'.join(out)
    ex.dropped = [
        'R2: #[cfg(test)] modules, inner doc comments/attributes, impl Display/Debug/Error, impl PartialEq for Keypair (subtle)',
        'R12: every FromStr::from_str, HandshakeChoice::parse_pattern_and_modifier, HandshakeChoice::is_fallback are #[verifier::external] in this unit; they are verified in the parser unit',
        'R18: `x.ok_or(K::V)?` is rewritten to `x.ok_or(Error::from(K::V))?` (the From::from that `?` applies is made explicit; Verus does not specify non-identity `?` conversions)',
        'R5: supertraits CryptoRng+RngCore of trait Random dropped (foreign crate)',
        'features hfs, risky-raw-split, nightly, no_std are compiled out (cfg)',
        'resolvers/default.rs and resolvers/ring.rs are not part of the core unit (separate wrapper unit, R16)',
        'lib.rs doc tests, examples/, benches/, hfuzz/',
    ]
    externalise_unknown_impls(ex)
    return ex


WRAPPER_VSHIM = '''pub mod wshim {
use vstd::prelude::*;
verus! {
// R15 shims (trusted, one line each): byte order of u64::to_le_bytes / to_be_bytes
#[verifier::external_body] pub fn u64_to_le_bytes(n: u64) -> (r: [u8; 8]) ensures r@ == crate::vspec::le64(n) { n.to_le_bytes() }
#[verifier::external_body] pub fn u64_to_be_bytes(n: u64) -> (r: [u8; 8]) ensures r@ == crate::vspec::be64(n) { n.to_be_bytes() }
// R5w: stand-in for rand_core::Error (the error of RngCore::try_fill_bytes)
#[derive(Debug)] pub struct RandError;
}
}
'''


def extract_wrappers(repo, root, which='default'):
    """R16: second verification unit - resolvers/default.rs (and ring.rs) verbatim, against stub modules that carry the
    ASSUMED contracts of the third-party crates."""
    ex = Extracted()

    def rd(p):
        return open(os.path.join(repo, 'src', p)).read()
    prelude = PRELUDE.replace('//@SPEC-MODULES@', WRAPPER_VSHIM + '//@SPEC-MODULES@\n//@DEPS@')
    out = [prelude]
    for m in ['constants', 'error']:
        out.append(_wrap(m, _pub_fields(ex, _clean(ex, rd(m + '.rs'))), m + '.rs'))
    t = _clean(ex, rd('types.rs'))
    # R5w: in this unit Random keeps the one RngCore method the wrappers call
    t = _sub(ex, 'R5w', r'pub trait Random: Send \+ Sync \{\}', 'pub trait Random: Send + Sync { fn fill_bytes(&mut self, dest: &mut [u8]); fn try_fill_bytes(&mut self, dest: &mut [u8]) -> Result<(), crate::wshim::RandError>; }', t, expect=1)
    out.append(_wrap('types', _pub_fields(ex, t), 'types.rs'))
    # params: only the *Choice enums are needed; keep the module as in the core unit minus patterns
    pm = _clean(ex, rd('params/mod.rs'))
    pm = _sub(ex, 'R1-nest', r'mod patterns;\n', '', pm, expect=1)
    pm = _sub(ex, 'R12', r'impl FromStr for', '#[verifier::external]\nimpl FromStr for', pm, minimum=5)
    pm = _sub(ex, 'R16-params', r'(?ms)^pub(?:\(crate\))? use self::patterns::\{.*?\};\n', '', pm, expect=2)
    pm = _sub(ex, 'R16-params', r'(?ms)^/// The set of choices.*', '', pm)   # NoiseParams and below (needs patterns)
    pm = _sub(ex, 'R16-params', r'(?m)^use crate::error::.*\n', 'use crate::error::{Error, PatternProblem};\n', pm)
    out.append('pub mod params {\n//@@SRC params/mod.rs\nuse vstd::prelude::*;\nverus! {\n%s\n} // verus!\n}\n' % pm)
    r = _clean(ex, rd('resolvers/mod.rs'))
    r = _sub(ex, 'R2-resolvers', r'(?ms)^/// The default primitive resolver\.\n.*?mod ring;\n', '', r, expect=1)
    r = _pub_fields(ex, r)

    def wrapper_file(name):
        d = rd('resolvers/%s.rs' % name)
        d = _sub(ex, 'R2-innerdoc', r'(?m)^//!.*\n', '', d)
        d = _sub(ex, 'R2-tests', r'(?ms)^#\[cfg\(test\)\].*', '', d)
        for crate in ['curve25519_dalek', 'blake2', 'sha2', 'chacha20poly1305', 'aes_gcm', 'rand_core']:
            d = _sub(ex, 'R16-use', r'(?m)^use %s::' % crate, 'use crate::deps::%s::' % crate, d)
        d = _sub(ex, 'R16-use', r'(?m)^use p256::', 'use crate::deps_p256::p256::', d)
        d = _sub(ex, 'R16-use', r'(?<![\w:])aes_gcm::Aes256Gcm::new\(', 'crate::deps::aes_gcm::Aes256Gcm::new(', d)
        d = _sub(ex, 'R15', r'&?nonce\.to_(le|be)_bytes\(\)', r'crate::wshim::u64_to_\1_bytes(nonce)', d)
        d = _sub(ex, 'R11-closure', r'\|_\|', '|_e|', d)
        d = _sub(ex, 'R11-closure', r'\|\(\)\|', '|_u: ()|', d)
        d = _sub(ex, 'R8', r'(?m)^struct ', 'pub struct ', d)
        d = _sub(ex, 'R4', r'assert!\(([^;]+?), "[^"]*"\);', r'crate::vassert(\1);', d)
        return d
    if which == 'ring':
        # R16r: the ring resolver.  Struct fields stay private (the wrappers carry type invariants over the ring key / context)
        r = _sub(ex, 'R2-resolvers', r'#\[cfg\(feature = "default-resolver"\)\]\npub use self::default::DefaultResolver;\n', '', r, expect=1)
        d = wrapper_file('ring')
        d = _sub(ex, 'R16-use', r'(?m)^use ring::', 'use crate::deps_ring::ring::', d, expect=1)
        d = _sub(ex, 'R5w', r'impl Random for RingRng \{\}',
                 'impl Random for RingRng { #[verifier::external_body] fn fill_bytes(&mut self, dest: &mut [u8]) { unimplemented!() } #[verifier::external_body] fn try_fill_bytes(&mut self, dest: &mut [u8]) -> Result<(), crate::wshim::RandError> { unimplemented!() } }', d, expect=1)
        # the rand_core glue (RngCore / CryptoRng for RingRng) is not verified
        d = _sub(ex, 'R12r', r'(?ms)^impl rand_core::RngCore for RingRng \{.*?^\}\n', '', d, expect=1)
        d = _sub(ex, 'R12r', r'(?m)^impl rand_core::CryptoRng for RingRng \{\}', '', d, expect=1)
        body = r + '\npub mod ring {\n//@@SRC resolvers/ring.rs\nuse vstd::prelude::*;\nverus! {\n%s\n} // verus!\n}\n' % d
    else:
        d = wrapper_file('default')
        # R23: a default trait method that the core only knows by contract (Dh::dh_len, external_body in the trait) is
        # materialised - with the trait's own body text - in every impl that does not override it, so that each impl's
        # dh_len is verified against the trait contract (what Rust's method resolution does, made explicit)
        tsrc = rd('types.rs')
        mdef = re.search(r'(?m)^    fn dh_len\(&self\) -> usize \{\n(.*?)^    \}\n', tsrc, re.S)
        if not mdef:
            raise AnchorLost('R23: default body of Dh::dh_len not found in types.rs')
        default_dh_len = '    fn dh_len(&self) -> usize {\n' + mdef.group(1) + '    }\n'
        n23 = 0
        for mimpl in reversed(list(re.finditer(r'(?m)^impl Dh for (\w+) \{\n', d))):
            start = mimpl.end()
            close = _match_close(d, mimpl.end() - 2)
            if not re.search(r'\bfn dh_len\b', d[start:close]):
                d = d[:close - 1] + '\n    //@@R23 default method materialised from types.rs\n' + default_dh_len + d[close - 1:]
                n23 += 1
        ex.counts['R23'] = n23
        d = _sub(ex, 'R5w', r'impl Random for OsRng \{\}',
                 'impl Random for OsRng { #[verifier::external_body] fn fill_bytes(&mut self, dest: &mut [u8]) { unimplemented!() } #[verifier::external_body] fn try_fill_bytes(&mut self, dest: &mut [u8]) -> Result<(), crate::wshim::RandError> { unimplemented!() } }', d, expect=1)
        d = _pub_fields(ex, d)
        body = r + '\npub mod default {\n//@@SRC resolvers/default.rs\nuse vstd::prelude::*;\nverus! {\n%s\n} // verus!\n}\n' % d
    out.append('pub mod resolvers {\n//@@SRC resolvers/mod.rs\nuse vstd::prelude::*;\nverus! {\n%s\n} // verus!\n}\n' % body)
    out.append('fn main() {}\n')
    ex.text = '\n'.join(out)
    if which == 'ring':
        ex.text = '\n'.join(out)
        ex.dropped = ['ring unit: only constants, error, types, params choices, resolvers/mod.rs, resolvers/ring.rs are in this unit',
                      'the ring crate is replaced by stub modules with ASSUMED contracts (spec/deps/ring.rs)',
                      'R12r: the rand_core glue of RingRng (impl RngCore / CryptoRng) is dropped: NOT verified; RingRng is only seen through trait Random (R5w)',
                      'struct fields stay private; the wrappers carry Verus type invariants (key/context algorithm)']
        externalise_unknown_impls(ex)
        return ex
    ex.dropped = ['wrapper unit: only constants, error, types, params choices, resolvers/mod.rs, resolvers/default.rs are in this unit',
                  'third-party crates replaced by stub modules with ASSUMED contracts (spec/deps/*.rs)',
                  'P-256, XChaChaPoly, Kyber wrappers are compiled out (cfg) in the default configuration',
                  'R23: the default body of Dh::dh_len (types.rs) is materialised in every impl Dh that does not override it']
    externalise_unknown_impls(ex)
    return ex


# --------------------------------------------------------------------------- parser unit (R20-R24)

PARSER_SHIM = """pub mod pshim {
use vstd::prelude::*;
verus! {
// R20-R22 shims (trusted; each is the one std call it names)
#[verifier::external_body] pub fn str_eq(a: &str, b: &str) -> (r: bool) ensures r == (a@ == b@) { a == b }
#[verifier::external_body] pub fn starts_with(s: &str, p: &str) -> (r: bool) ensures r == crate::pspec::is_prefix(p@, s@) { s.starts_with(p) }
#[verifier::external_body] pub struct VSplit<'a> { it: core::str::Split<'a, char> }
pub uninterp spec fn vsplit_left(v: &VSplit<'_>) -> nat;
impl<'a> Iterator for VSplit<'a> { type Item = &'a str;
    #[verifier::external_body] fn next(&mut self) -> Option<&'a str> { self.it.next() } }
impl<'a> vstd::std_specs::iter::IteratorSpecImpl for VSplit<'a> {
    open spec fn obeys_prophetic_iter_laws(&self) -> bool { true }
    #[verifier::prophetic] uninterp spec fn remaining(&self) -> Seq<&'a str>;
    #[verifier::prophetic] open spec fn will_return_none(&self) -> bool { true }
    open spec fn decrease(&self) -> Option<nat> { Some(vsplit_left(self)) }
    open spec fn peek(&self, index: int) -> Option<&'a str> { None }
}
#[verifier::external_body] pub fn split<'a>(s: &'a str, c: char) -> (r: VSplit<'a>)
    ensures crate::pspec::strs_view(vstd::std_specs::iter::IteratorSpec::remaining(&r)) == crate::pspec::split_on(s@, c)
{ VSplit { it: s.split(c) } }
}
}
"""


def expand_pattern_enum(ex, pp):
    """R7p: expand the pattern_enum! invocation with the macro's own transcriber text (a small macro_rules
    interpreter for this macro's shape: one rule, `$name`, `$( ... ),*` repetitions over `$variant`, stringify!)."""
    md = re.search(r'(?ms)^macro_rules! pattern_enum \{\n(.*?)^\}\n', pp)
    inv = re.search(r'(?ms)^pattern_enum! \{\n\s*(\w+) \{(.*?)\}\n\}\n', pp)
    if not md or not inv:
        raise AnchorLost('R7p: pattern_enum! definition or invocation not found')
    body = md.group(1)
    k = body.find('}) => {')
    if k < 0 or body.count('=> {') != 1 or '$($variant:ident),* $(,)*' not in body[:k]:
        raise AnchorLost('R7p: pattern_enum! matcher changed shape')
    tr = body[k + len('}) => {'):]
    tr = tr[:tr.rindex('}')]
    name = inv.group(1)
    variants = [v.strip() for v in re.sub(r'//.*', '', inv.group(2)).replace('\n', ' ').split(',') if v.strip()]
    out = []
    i = 0
    while True:
        j = tr.find('$(', i)
        if j < 0:
            out.append(tr[i:])
            break
        out.append(tr[i:j])
        depth, q = 1, j + 2
        while depth:
            c = tr[q]
            depth += (c == '(') - (c == ')')
            q += 1
        inner = tr[j + 2:q - 1]
        mm = re.match(r'\s*,\s*\*', tr[q:])
        if not mm:
            raise AnchorLost('R7p: unsupported repetition operator in pattern_enum! transcriber')
        out.append(', '.join(inner.strip().replace('$variant', v) for v in variants))
        i = q + mm.end()
    t = ''.join(out).replace('$name', name)
    if '$' in t:
        raise AnchorLost('R7p: unexpanded macro variable left in pattern_enum! expansion')
    t = re.sub(r'stringify!\((\w+)\)', r'"\1"', t)
    t = re.sub(r'(?m)^\s*///.*\n', '', t)
    t = re.sub(r'(?m)^        ', '', t)
    ex.counts['R7p-variants'] = len(variants)
    pp = pp.replace(inv.group(0), t + '\n').replace(md.group(0), '')
    return pp, variants


def _match_close(s, i):
    """index just after the brace/paren/bracket group opening at s[i]; skips string and char literals and // comments"""
    pairs = {'{': '}', '(': ')', '[': ']'}
    stack = [pairs[s[i]]]
    i += 1
    while stack:
        c = s[i]
        if c == '"':
            i += 1
            while s[i] != '"':
                i += 2 if s[i] == '\\' else 1
        elif c == "'" and re.match(r"'(\\.|[^\\'])'", s[i:]):
            i += re.match(r"'(\\.|[^\\'])'", s[i:]).end() - 1
        elif s.startswith('//', i):
            i = s.index('\n', i)
        elif c in pairs:
            stack.append(pairs[c])
        elif c == stack[-1]:
            stack.pop()
        i += 1
    return i


def rewrite_str_matches(ex, s):
    """R20: Verus has no string-literal patterns.  `match s { "lit" => E, x if G => E, _ => E }` in tail position of a
    function becomes the equivalent chain `if str_eq(s, "lit") { return E; } ... ; E`.  cfg attributes on arms stay on
    the generated statements."""
    while True:
        m = re.search(r'match s \{', s)
        if not m:
            return s
        start, end = m.start(), _match_close(s, m.end() - 1)
        # tail position: only closing braces of blocks follow until the end of the enclosing fn body
        rest = s[end:]
        if not re.match(r'\s*\}', rest):
            raise AnchorLost('R20: match on &str not in tail position')
        arms_src = s[m.end():end - 1]
        i, stmts, tail = 0, [], None
        while True:
            mm = re.compile(r'\s*((?:#\[[^\]]*\]\s*)*)').match(arms_src, i)
            attrs = mm.group(1).strip()
            i = mm.end()
            if i >= len(arms_src):
                break
            am = re.compile(r'("(?:[^"\\]|\\.)*"|_|s if )').match(arms_src, i)
            if not am:
                raise AnchorLost('R20: unsupported match arm pattern near %r' % arms_src[i:i + 40])
            pat = am.group(1)
            i = am.end()
            guard = None
            if pat == 's if ':
                k = arms_src.index('=>', i)
                guard = arms_src[i:k].strip()
                i = k
            am2 = re.compile(r'\s*=>\s*').match(arms_src, i)
            if not am2:
                raise AnchorLost('R20: `=>` expected')
            i = am2.end()
            # arm expression: a block, or up to the next top-level comma / end
            if arms_src[i] == '{':
                j = _match_close(arms_src, i)
                expr = arms_src[i:j]
            else:
                j = i
                while j < len(arms_src) and arms_src[j] != ',':
                    if arms_src[j] in '({[':
                        j = _match_close(arms_src, j)
                    elif arms_src[j] == '"':
                        j += 1
                        while arms_src[j] != '"':
                            j += 2 if arms_src[j] == '\\' else 1
                        j += 1
                    else:
                        j += 1
                expr = arms_src[i:j].strip()
            i = j
            cm = re.compile(r'\s*,').match(arms_src, i)
            if cm:
                i = cm.end()
            ret = expr if expr.startswith('return ') else 'return %s' % expr
            if pat == '_':
                if attrs:
                    raise AnchorLost('R20: cfg on the wildcard arm')
                tail = ret + ';'
                break
            cond = guard if guard is not None else 'crate::pshim::str_eq(s, %s)' % pat
            st = 'if %s { %s; }' % (cond, ret)
            stmts.append(('%s { %s }' % (attrs, st)) if attrs else st)
            ex.counts['R20-arms'] = ex.counts.get('R20-arms', 0) + 1
        if tail is None:
            raise AnchorLost('R20: no wildcard arm')
        ex.counts['R20'] = ex.counts.get('R20', 0) + 1
        s = s[:start] + '\n'.join(stmts) + '\n' + tail + s[end:]


def extract_parser(repo):
    """R19p: third verification unit - the protocol-name parser (params/mod.rs + params/patterns.rs up to the token tables)."""
    ex = Extracted()

    def rd(p):
        return open(os.path.join(repo, 'src', p)).read()
    prelude = PRELUDE.replace('//@SPEC-MODULES@', PARSER_SHIM + '//@SPEC-MODULES@')
    out = [prelude]
    out.append(_wrap('error', _pub_fields(ex, _clean(ex, rd('error.rs'))), 'error.rs'))
    pm = _clean(ex, rd('params/mod.rs'))
    pm = _sub(ex, 'R1-nest', r'mod patterns;\n', '', pm, expect=1)
    pp = _clean(ex, rd('params/patterns.rs'))
    pp, variants = expand_pattern_enum(ex, pp)
    pp = _sub(ex, 'R12', r"(?m)^pub const SUPPORTED_HANDSHAKE_PATTERNS", '#[verifier::external]\npub const SUPPORTED_HANDSHAKE_PATTERNS', pp, expect=1)
    # everything from the token tables on belongs to the core unit
    pp = _sub(ex, 'R19p-cut', r'(?ms)^type Patterns = .*', '', pp, expect=1)
    pp = _sub(ex, 'R3', r'(?ms)^macro_rules! message_vec \{.*?^\}\n', '', pp, expect=1)
    both = []
    for t in (pp, pm):
        t = rewrite_str_matches(ex, t)
        t = _sub(ex, 'R21', r'\b(\w+)\.split\((\'.\')\)', r'crate::pshim::split(\1, \2)', t)
        t = _sub(ex, 'R22', r'\b(\w+)\.starts_with\(("[^"]*")\)', r'crate::pshim::starts_with(\1, \2)', t)
        t = _sub(ex, 'R18', r'\.map_err\(\|_e\| (PatternProblem::\w+)\)\?', r'.map_err(|_e| crate::error::Error::from(\1))?', t)
        both.append(_pub_fields(ex, t))
    pp, pm = both
    if ex.counts.get('R21', 0) != 3 or ex.counts.get('R22', 0) != 1:
        raise AnchorLost('R21/R22: expected 3 split sites and 1 starts_with site, found %s/%s' % (ex.counts.get('R21'), ex.counts.get('R22')))
    out.append('pub mod params {\nuse vstd::prelude::*;\npub mod patterns {\n//@@SRC params/patterns.rs\nuse vstd::prelude::*;\nverus! {\n%s\n} // verus!\n}\n//@@SRC params/mod.rs\nverus! {\n%s\n} // verus!\n}\n' % (pp, pm))
    out.append('fn main() {}\n')
    ex.text = '\n'.join(out)
    ex.modules = [('error', 'error.rs'), ('params::patterns', 'params/patterns.rs'), ('params', 'params/mod.rs')]
    ex.dropped = ['parser unit: only error.rs, params/mod.rs and params/patterns.rs up to (not including) the token tables are in this unit',
                  'R7p: pattern_enum! is expanded with the macro\'s own transcriber text',
                  'R20: `match s { "lit" => .. }` on &str becomes an if/return chain over the shim pshim::str_eq (Verus has no string-literal patterns)',
                  'R21/R22: s.split(\'c\') and s.starts_with("lit") go through shims with ASSUMED contracts (std Pattern trait is unstable)',
                  'the hfs variant of NoiseParams::from_str is compiled out (feature hfs off)']
    return ex


if __name__ == '__main__':
    import sys
    e = extract(sys.argv[1] if len(sys.argv) > 1 else '/repo')
    open(sys.argv[2] if len(sys.argv) > 2 else '/verif/build/extracted.rs', 'w').write(e.text)
    print(e.counts)
