#!/usr/bin/env python3
"""spec/noise_patterns.txt (Noise rev 34 sections 7.4-7.6 in the spec's arrow notation) -> vspec text defining
spec_pattern(p).  The transcription is the oracle for snow's 38-row table; this converter is mechanical and
checks the notation's own redundancy (arrows must alternate starting with the initiator)."""
import re


class PatternFileError(Exception):
    pass


TOK = {'e': 'Token::E', 's': 'Token::S', 'ee': 'Token::Dh(DhToken::Ee)', 'es': 'Token::Dh(DhToken::Es)',
       'se': 'Token::Dh(DhToken::Se)', 'ss': 'Token::Dh(DhToken::Ss)'}


def parse(text):
    pats = []
    for line in text.split('\n'):
        line = line.split('#')[0].strip()
        if not line:
            continue
        name, rest = line.split(':', 1)
        name = name.strip()
        pre_i, pre_r = [], []
        if '...' in rest:
            pre, rest = rest.split('...')
            for part in re.findall(r'(->|<-)\s*([a-z, ]+?)(?=(?:->|<-|$))', pre.strip()):
                toks = [t.strip() for t in part[1].split(',') if t.strip()]
                for t in toks:
                    if t not in ('e', 's'):
                        raise PatternFileError('%s: bad pre-message token %r' % (name, t))
                (pre_i if part[0] == '->' else pre_r).extend(toks)
        msgs = []
        for k, m in enumerate(rest.split('|')):
            m = m.strip()
            arrow, body = m[:2], m[2:]
            if arrow != ('->' if k % 2 == 0 else '<-'):
                raise PatternFileError('%s: message %d has arrow %r (messages alternate, initiator first)' % (name, k + 1, arrow))
            toks = [t.strip() for t in body.split(',') if t.strip()]
            for t in toks:
                if t not in TOK:
                    raise PatternFileError('%s: bad token %r' % (name, t))
            msgs.append(toks)
        pats.append((name, pre_i, pre_r, msgs))
    return pats


def seq(toks):
    return 'seq![%s]' % ', '.join(TOK[t] for t in toks) if toks else 'Seq::<Token>::empty()'


def vspec(text):
    pats = parse(text)
    arms = []
    for name, pi, pr, msgs in pats:
        arms.append('        HandshakePattern::%s => SpecPattern { pre_i: %s, pre_r: %s, msgs: seq![%s] },' % (
            name, seq(pi), seq(pr), ', '.join(seq(m) for m in msgs)))
    # derived tables (rule from property C12, evaluated on the transcription):
    #  needs_s(p, role): the role's own static key occurs in its pre-message or in a message that role writes
    #  needs_rs(p, role): the peer's static key is a pre-message
    def needs_s(pi, pr, msgs, initiator):
        own_pre = pi if initiator else pr
        return 's' in own_pre or any('s' in m for k, m in enumerate(msgs) if (k % 2 == 0) == initiator)
    def needs_rs(pi, pr, msgs, initiator):
        return 's' in (pr if initiator else pi)
    def table(fn_name, f):
        yes_i = [n for (n, pi, pr, msgs) in pats if f(pi, pr, msgs, True)]
        yes_r = [n for (n, pi, pr, msgs) in pats if f(pi, pr, msgs, False)]
        def arms(lst):
            return ' || '.join('p == HandshakePattern::%s' % n for n in lst) if lst else 'false'
        return ('pub open spec fn %s(p: HandshakePattern, initiator: bool) -> bool {\n    if initiator { %s }\n    else { %s }\n}\n'
                % (fn_name, arms(yes_i), arms(yes_r)))
    derived = table('spec_needs_s', needs_s) + table('spec_needs_rs', needs_rs)
    derived += ('pub open spec fn spec_n_messages(p: HandshakePattern) -> int {\n    match p {\n'
                + '\n'.join('        HandshakePattern::%s => %d,' % (n, len(msgs)) for (n, pi, pr, msgs) in pats) + '\n    }\n}\n')
    # C12/C02: every pattern is executable from exactly the keys the builder demands - one computation per pattern
    keys_lemma = ('@items handshakestate | -\n//- GENERATED: one `by (compute_only)` evaluation of the abstract key-availability simulation per pattern\n'
                  '//# props C02,C12\npub proof fn lemma_table_keys(p: crate::params::HandshakePattern)\n'
                  '    ensures ks_session_ok(crate::params::patterns::spec_pattern(p).msgs, 0, ks_init(p, true), ks_init(p, false))\n{\n    match p {\n'
                  + '\n'.join('        crate::params::HandshakePattern::%s => { assert(ks_session_ok(crate::params::patterns::spec_pattern(crate::params::HandshakePattern::%s).msgs, 0, ks_init(crate::params::HandshakePattern::%s, true), ks_init(crate::params::HandshakePattern::%s, false))) by (compute_only); },' % (n, n, n, n) for (n, pi, pr, msgs) in pats)
                  + '\n    }\n}\n')
    return ('@items params::patterns | -\n'
            '//- GENERATED from spec/noise_patterns.txt by framework/gen_patterns.py on every run\n'
            'pub struct SpecPattern { pub pre_i: Seq<Token>, pub pre_r: Seq<Token>, pub msgs: Seq<Seq<Token>> }\n'
            'pub open spec fn spec_pattern(p: HandshakePattern) -> SpecPattern {\n    match p {\n' + '\n'.join(arms) + '\n    }\n}\n' + derived + keys_lemma), [p[0] for p in pats]



def pattern_names(text):
    return [p[0] for p in parse(text)]


def parser_names_spec(names):
    """GENERATED part of the parser unit's grammar: the pattern names of the transcription as char sequences, the
    literals they correspond to, and a numeric key per name (distinct keys => distinct names)."""
    def chars(n):
        return 'seq![%s]' % ', '.join("'%s'" % c for c in n)
    def key(n):
        cs = [ord(c) for c in n] + [0] * (4 - len(n))
        return len(n) + 8 * (cs[0] + 256 * (cs[1] + 256 * (cs[2] + 256 * cs[3])))
    hp = 'crate::params::HandshakePattern'
    out = ['//- GENERATED from spec/noise_patterns.txt by framework/gen_patterns.py on every run']
    out.append('pub open spec fn pat_name(p: %s) -> Seq<char> {\n    match p {\n%s\n    }\n}' % (
        hp, '\n'.join('        %s::%s => %s,' % (hp, n, chars(n)) for n in names)))
    out.append('pub open spec fn key_char(s: Seq<char>, i: int) -> int { if i < s.len() { s[i] as int } else { 0 } }')
    out.append('pub open spec fn pat_key(s: Seq<char>) -> int { s.len() + 8 * (key_char(s, 0) + 256 * (key_char(s, 1) + 256 * (key_char(s, 2) + 256 * key_char(s, 3)))) }')
    out.append('pub proof fn lemma_pat_literals()\n    ensures\n%s\n{\n%s\n}' % (
        '\n'.join('        "%s"@ == pat_name(%s::%s),' % (n, hp, n) for n in names),
        '\n'.join('    reveal_strlit("%s"); assert("%s"@ =~= %s);' % (n, n, chars(n)) for n in names)))
    out.append('pub proof fn lemma_pat_keys(p: %s)\n    ensures pat_key(pat_name(p)) == (match p {\n%s\n    })\n{\n    match p {\n%s\n    }\n}' % (
        hp, '\n'.join('        %s::%s => %dint,' % (hp, n, key(n)) for n in names),
        '\n'.join('        %s::%s => { assert(pat_key(%s) == %d); },' % (hp, n, chars(n), key(n)) for n in names)))
    return '\n'.join(out) + '\n'


if __name__ == '__main__':
    import sys
    t, names = vspec(open(sys.argv[1]).read())
    print(t)
