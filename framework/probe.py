#!/usr/bin/env python3
"""Counterexample search on the REAL code (replay probe).  Not the deciding step - the deciding step is the Verus
proof.  Used (a) to attach a concrete failing input to a failed obligation, (b) to turn an UNDECIDED (lost proof
anchor, construct outside the verifier's reach) into a reported violation when - and only when - a concrete failing
input exists, (c) as an extra layer in the thorough tier.

Builds probes/vp_probe.rs as an integration test of a scratch copy of /repo's working tree (outside /repo and
/verif, removed afterwards together with its build output) and collects lines `PROBE-FINDING property=<id> | ...`."""
import hashlib
import json
import os
import re
import shutil
import subprocess
import sys
import time

HERE = os.path.dirname(os.path.abspath(__file__))
ROOT = os.path.dirname(HERE)
sys.path.insert(0, HERE)
import gen_patterns as G   # noqa: E402


def _tree_hash(repo):
    h = hashlib.sha256()
    for base in ('src', 'tests/vectors'):
        for dp, dn, fn in sorted(os.walk(os.path.join(repo, base))):
            dn.sort()
            for f in sorted(fn):
                p = os.path.join(dp, f)
                h.update(os.path.relpath(p, repo).encode())
                h.update(open(p, 'rb').read())
    for f in ('Cargo.toml', 'Cargo.lock', 'build.rs'):
        p = os.path.join(repo, f)
        if os.path.exists(p):
            h.update(open(p, 'rb').read())
    for f in (os.path.join(ROOT, 'probes', 'vp_probe.rs'), os.path.join(ROOT, 'spec', 'noise_patterns.txt')):
        h.update(open(f, 'rb').read())
    return h.hexdigest()[:32]


def table_rs():
    pats = G.parse(open(os.path.join(ROOT, 'spec', 'noise_patterns.txt')).read())

    def arr(l):
        return '&[' + ', '.join('"%s"' % t for t in l) + ']'
    rows = ['    ("%s", %s, %s, &[%s]),' % (n, arr(pi), arr(pr), ', '.join(arr(m) for m in msgs)) for (n, pi, pr, msgs) in pats]
    return ('// GENERATED from spec/noise_patterns.txt\npub const TABLE: &[(&str, &[&str], &[&str], &[&[&str]])] = &[\n'
            + '\n'.join(rows) + '\n];\n')


def run_probe(repo, build_dir, test_filter=None):
    """-> {'findings': {prop: [text]}, 'tests': {name: 'ok'|'FAILED'}, 'wall_s', 'cache_hit', 'error': str|None}"""
    key = _tree_hash(repo)
    cdir = os.path.join(build_dir, 'cache')
    os.makedirs(cdir, exist_ok=True)
    cfile = os.path.join(cdir, 'probe-%s.json' % key)
    if test_filter is None and os.path.exists(cfile) and not os.environ.get('VERIF_NO_CACHE'):
        try:
            d = json.load(open(cfile))
            d['cache_hit'] = True
            return d
        except Exception:
            pass
    t0 = time.time()
    scratch = '/var/tmp/vp-probe-%d' % os.getpid()
    res = {'findings': {}, 'tests': {}, 'wall_s': 0.0, 'cache_hit': False, 'error': None, 'repo_tree': key}
    try:
        # scratch copies left behind by a probe run that was killed (its pid no longer exists) are removed first
        import glob as _glob
        for d in _glob.glob('/var/tmp/vp-probe-*'):
            try:
                if not os.path.exists('/proc/%d' % int(d.rsplit('-', 1)[1])):
                    shutil.rmtree(d, ignore_errors=True)
            except ValueError:
                pass
        shutil.rmtree(scratch, ignore_errors=True)
        os.makedirs(scratch)
        for item in ('src', 'Cargo.toml', 'Cargo.lock', 'build.rs', 'benches', 'examples'):
            s = os.path.join(repo, item)
            if os.path.isdir(s):
                shutil.copytree(s, os.path.join(scratch, item))
            elif os.path.exists(s):
                shutil.copy(s, os.path.join(scratch, item))
        os.makedirs(os.path.join(scratch, 'tests'))
        shutil.copytree(os.path.join(repo, 'tests', 'vectors'), os.path.join(scratch, 'tests', 'vectors'))
        shutil.copy(os.path.join(ROOT, 'probes', 'vp_probe.rs'), os.path.join(scratch, 'tests', 'vp_probe.rs'))
        open(os.path.join(scratch, 'tests', 'vp_table.rs'), 'w').write(table_rs())
        env = dict(os.environ, CARGO_NET_OFFLINE='true', CARGO_TARGET_DIR=os.path.join(scratch, 'target'))
        def run(features):
            cmd = ['cargo', 'test', '--offline'] + features + ['--test', 'vp_probe', '--']
            if test_filter:
                cmd.append(test_filter)
            cmd += ['--test-threads=12']
            pr = subprocess.run(cmd, cwd=scratch, env=env, capture_output=True, text=True, timeout=3000)
            return pr.stdout + '\n' + pr.stderr
        # with the ring backend compiled in (C18/C20 comparison tests); without it if that build is not possible here
        out = run(['--features', 'ring-resolver'])
        res['ring_backend_tests'] = True
        if not re.search(r'(?m)^test \w+ \.\.\. (ok|FAILED)', out):
            out = run([])
            res['ring_backend_tests'] = False
        # second configuration: the P-256 and XChaChaPoly extensions compiled in (MAXDHLEN = 65, 65-byte public keys);
        # the sweeps then also cover Noise_*_P256_* and *_XChaChaPoly_* names (no external vectors exist for those)
        out2 = run(['--features', 'ring-resolver use-p256 use-xchacha20poly1305'] if res['ring_backend_tests'] else ['--features', 'use-p256 use-xchacha20poly1305'])
        res['extensions_configuration'] = bool(re.search(r'(?m)^test \w+ \.\.\. (ok|FAILED)', out2))
        if res['extensions_configuration']:
            out = out + '\n' + re.sub(r'(?m)^test (\w+) \.\.\. ', r'test ext_\1 ... ', out2).replace('---- ', '---- ext_')
        for l in out.split('\n'):
            m = re.match(r'PROBE-FINDING property=(C\d\d) \| (.*)$', l.strip())
            if m:
                res['findings'].setdefault(m.group(1), [])
                if m.group(2) not in res['findings'][m.group(1)]:
                    res['findings'][m.group(1)].append(m.group(2))
            m = re.match(r'test (\w+) \.\.\. (ok|FAILED)', l.strip())
            if m:
                res['tests'][m.group(1)] = m.group(2)
        # a test that aborts (unwrap / index panic in an honest API sequence) without having printed a finding: the honest
        # sequence itself failed -> C02 (honest sessions complete and deliver), with the panic message as the witness
        for name, st in res['tests'].items():
            if st != 'FAILED':
                continue
            blk = re.search(r"---- %s stdout ----\n(.*?)(?=\n---- |\nfailures:|\Z)" % re.escape(name), out, re.S)
            text = blk.group(1) if blk else ''
            if 'PROBE-FINDING' in text:
                continue
            pm = re.search(r"panicked at ([^\n]*)\n([^\n]*)", text)
            msg = ('%s: %s' % (pm.group(1).strip(), pm.group(2).strip())) if pm else 'aborted'
            res['findings'].setdefault('C02', []).append('probe test %s: an honest API sequence (complete handshake, conversion, in-order traffic) aborted: %s' % (name, msg[:300]))
        if not res['tests']:
            res['error'] = 'probe did not build/run: ' + out[-1500:]
    except Exception as e:   # noqa
        res['error'] = 'probe failed to run: %s' % e
    finally:
        shutil.rmtree(scratch, ignore_errors=True)
    res['wall_s'] = round(time.time() - t0, 1)
    if test_filter is None and res['error'] is None:
        json.dump(res, open(cfile, 'w'))
    return res


if __name__ == '__main__':
    r = run_probe(os.environ.get('VP_REPO', '/repo'), os.path.join(ROOT, 'build'), sys.argv[1] if len(sys.argv) > 1 else None)
    print(json.dumps(r, indent=1)[:4000])
