#!/bin/bash
# dev helper: build + verify the ring wrapper unit
cd /verif && python3 - <<'PY' || exit 2
import sys
sys.path.insert(0,'/verif/framework')
import check as C
ex, woven, info, path = C.build_wrappers(which='ring')
print('woven', path, woven.count('\n'), 'lost hints', info.get('lost_hints'))
PY
cd /verif/build && verus snow_ring.rs --cfg 'feature="std"' --cfg 'feature="default-resolver"' --cfg 'feature="ring"' --cfg 'feature="ring-resolver"' --triggers-mode silent --multiple-errors 30 "$@" 2>&1 | python3 -c "
import sys,re
lines=sys.stdin.read().split('\n')
i=0
while i<len(lines):
    l=lines[i]
    if l.startswith('error') or l.startswith('verification results'):
        loc=''; src=''; extra=''
        for j in range(i+1,min(i+5,len(lines))):
            m=re.match(r'\s+--> (\S+)',lines[j])
            if m: loc=m.group(1).replace('snow_ring.rs:',''); break
        k=0
        for j in range(i+1,min(i+14,len(lines))):
            m=re.match(r'\s*(\d+) \|\s?(.*)',lines[j])
            if m:
                k+=1
                if k==1: src=m.group(1)+': '+m.group(2).strip()[:100]
                elif k==2: extra=' || '+m.group(1)+': '+m.group(2).strip()[:100]; break
            if lines[j].startswith('error'): break
        print(l[:110],'|',loc,'|',src,extra)
    i+=1
"
