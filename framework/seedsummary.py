#!/usr/bin/env python3
"""framework/seedsummary.py <dir with <id>.txt outputs of seedtest.sh> : writes seeded/RESULTS.md and the detected_by field
of every seeded/<id>/meta.json (informational; the checks themselves never read these files)."""
import json, os, re, sys
ROOT = os.path.dirname(os.path.dirname(os.path.abspath(__file__)))
d = sys.argv[1]
rows = []
for sid in sorted(os.listdir(os.path.join(ROOT, 'seeded'))):
    mp = os.path.join(ROOT, 'seeded', sid, 'meta.json')
    if not os.path.exists(mp):
        continue
    meta = json.load(open(mp))
    f = os.path.join(d, sid + '.txt')
    if not os.path.exists(f):
        rows.append((sid, meta, None, None, None, None)); continue
    out = open(f).read()
    viol = sorted(set(re.findall(r'VIOLATION property=(C\d\d)', out)))
    proof_obl = sorted(set(re.findall(r'VIOLATION property=C\d\d replay=\S+ obligation=(\S+)', out)))
    by_probe = sorted(set(re.findall(r'VIOLATION property=(C\d\d) replay=\S+-probe\.json', out)))
    und = bool(re.search(r'^UNDECIDED \(deductive check\)', out, re.M))
    why = ''
    m = re.search(r'^UNDECIDED \(deductive check\): (.*)$', out, re.M)
    if m: why = m.group(1)[:160]
    target = meta['breaks_property']
    meta['detected_by'] = {
        'violations_reported_for': viol,
        'target_property_reported': target in viol,
        'failed_obligations': proof_obl[:8],
        'reported_through_replay_probe_for': by_probe,
        'deductive_check_undecided': und, 'undecided_reason': why,
    }
    json.dump(meta, open(mp, 'w'), indent=1)
    rows.append((sid, meta, viol, proof_obl, by_probe, (und, why)))
L = ['# Seeded changes: what the checks report', '',
     'Produced by `framework/seedtest.sh` (every check, quick tier, against each change applied to a scratch worktree of /repo) and',
     '`framework/seedsummary.py`.  "proof" = a named Verus obligation that is green on the unchanged tree fails; "probe" = the deductive',
     'check was undecided or clean for that property and the replay probe exhibited a concrete failing input.', '',
     '| seed | files changed | detected | target property reported | how | failed obligations (first few) / reason undecided |', '|---|---|---|---|---|---|']
nd = 0
for sid, meta, viol, obl, probe, und in rows:
    if viol is None:
        L.append('| %s | %s | not run | | | |' % (sid, ', '.join(meta['files_changed']))); continue
    det = bool(viol)
    nd += det
    how = []
    if obl: how.append('proof')
    if probe: how.append('probe')
    detail = '; '.join(o.split('::', 1)[-1] for o in obl[:3])
    if und[0]: detail += (' / ' if detail else '') + 'deductive check undecided: ' + und[1][:110]
    L.append('| %s | %s | %s | %s | %s | %s |' % (sid, ', '.join(x.replace('src/', '') for x in meta['files_changed']), 'yes (%s)' % ' '.join(viol) if det else '**no**', 'yes' if meta['breaks_property'] in viol else 'no', '+'.join(how) or '-', detail.replace('|', '/')))
L += ['', '%d of %d seeded changes raise at least one VIOLATION.' % (nd, len(rows)), '']
# per-round statistics
stats = {}
for sid, meta, viol, obl, probe, und in rows:
    if viol is None:
        continue
    r = meta.get('round', 1)
    st = stats.setdefault(r, {'n': 0, 'det': 0, 'proof': 0, 'probe_only': 0, 'target': 0})
    st['n'] += 1; st['det'] += bool(viol); st['proof'] += bool(obl); st['probe_only'] += bool(viol) and not obl; st['target'] += meta['breaks_property'] in viol
L += ['| round | changes | reported | by a named proof obligation | through the replay probe only | target property among those reported |', '|---|---|---|---|---|---|']
tot = {'n': 0, 'det': 0, 'proof': 0, 'probe_only': 0, 'target': 0}
for r in sorted(stats):
    st = stats[r]
    for k in tot: tot[k] += st[k]
    L.append('| %s | %d | %d | %d | %d | %d |' % (r, st['n'], st['det'], st['proof'], st['probe_only'], st['target']))
L.append('| all | %d | %d | %d | %d | %d |' % (tot['n'], tot['det'], tot['proof'], tot['probe_only'], tot['target']))
L.append('')
open(os.path.join(ROOT, 'seeded', 'RESULTS.md'), 'w').write('\n'.join(L))
print('\n'.join(L[-14:]))
