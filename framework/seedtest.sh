#!/bin/bash
# framework/seedtest.sh [ids...]: apply each seeded change to a scratch worktree of /repo and run every check against it
# (informational; never part of a registered check).  Runs from whatever copy of /verif it lives in (works under `vp run`).
V=$(cd "$(dirname "$0")/.." && pwd)
W=${SEED_WT:-/var/tmp/w/seedwt}
if [ ! -d "$W" ]; then git -C /repo worktree add --detach "$W" HEAD >/dev/null 2>&1; fi
cd "$W" && git checkout -q -- . && git checkout -q --detach main 2>/dev/null; git clean -qfd src tests >/dev/null
mkdir -p "$V/build/seedtest"
ids="$@"; [ -z "$ids" ] && ids=$(cd "$V/seeded" && ls -d C*-* 2>/dev/null)
for id in $ids; do
  cd "$W" && git checkout -q -- . && git apply "$V/seeded/$id/patch.diff" || { echo "$id PATCH-FAILED"; continue; }
  out="$V/build/seedtest/$id.txt"
  (cd "$V" && VP_REPO=$W VERIF_BUILD="${SEED_BUILD:-$V/build/seedbuild}" VERIF_VACUITY=0 python3 framework/check.py all > "$out" 2>&1)
  viol=$(grep -o "VIOLATION property=C[0-9]*" "$out" | sort -u | sed 's/VIOLATION property=//' | tr '\n' ' ')
  und=$(grep -o "^UNDECIDED[ :A-Z0-9]*" "$out" | sort -u | head -4 | tr '\n' ' ')
  echo "$id violations=[$viol] undecided=[$und]"
  cd "$W" && git checkout -q -- .
done
echo SEEDTEST-DONE
