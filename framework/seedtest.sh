#!/bin/bash
# framework/seedtest.sh [ids...]: apply each seeded change to a scratch worktree of /repo and run every check against it
# (informational; never part of a registered check).  Results -> build/seedtest/<id>.txt and a summary line each.
W=${SEED_WT:-/var/tmp/w/fix}
cd "$W" && git checkout -q -- . && git clean -qfd src tests >/dev/null
mkdir -p /verif/build/seedtest
ids="$@"; [ -z "$ids" ] && ids=$(ls /verif/seeded)
for id in $ids; do
  cd "$W" && git checkout -q -- . && git apply /verif/seeded/$id/patch.diff || { echo "$id PATCH-FAILED"; continue; }
  out=/verif/build/seedtest/$id.txt
  (cd /verif && VP_REPO=$W VERIF_BUILD=/verif/build/seedbuild VERIF_VACUITY=0 python3 framework/check.py all > $out 2>&1)
  viol=$(grep -o "VIOLATION property=C[0-9]*" $out | sort -u | sed 's/VIOLATION property=//' | tr '\n' ' ')
  und=$(grep -o "^UNDECIDED[ :A-Z0-9]*" $out | sort -u | head -3 | tr '\n' ' ')
  echo "$id violations=[$viol] undecided=[$und]"
  cd "$W" && git checkout -q -- .
done
