#!/usr/bin/env python3
"""Weaver: attaches contracts from .vspec files to the mechanically extracted crate text.

Anchors are structural (module, impl/trait header, fn name, loop ordinal, statement-text ordinal).
Only ghost text is inserted: requires/ensures/invariant clauses, return binders, ghost items,
proof blocks.  No executable token of the extracted code is edited.

.vspec format (line oriented):
  @fn <mod path> | <block header or -> | <fn name>       start a function contract
  @items <mod path> | <block header or ->                ghost items placed at the start of that block
  props C01,C05        default property ids of the entry (used for unlabelled clauses and body safety)
  ret <binder>         name the return value
  attr <attribute>     attribute placed before `fn`
  #: <label> [C01,C02] label (and property ids) for the clause lines that follow
  @loop <k>            invariant text for the k-th loop of the function
  @iter <k> <name>     name the ghost iterator of the k-th (for) loop
  @hint start          proof text at the start of the body
  @hint after|before <k> :: <statement text>   proof text next to the k-th occurrence of the text
  @vacuity after|before <k> :: <anchor>        extra must-fail probe at that point (vacuity build only)
  @hint loopstart <k>                          proof text as first statement of the k-th loop's body
  @hint beforeloop <k> / afterloop <k>         proof text just before the k-th loop / just after its closing brace
  @closure <k> :: <binder: type> :: <ensures>  contract for the k-th closure
  @end                 ends a sub-block
"""
import re


class AnchorLost(Exception):
    pass


def match_brace(s, i):
    assert s[i] == '{', s[i:i + 20]
    depth = 0
    j = i
    n = len(s)
    while j < n:
        c = s[j]
        if c == '/' and s[j:j + 2] == '//':
            j = s.index('\n', j)
            continue
        if c == '/' and s[j:j + 2] == '/*':
            j = s.index('*/', j) + 2
            continue
        if c == '"':
            j += 1
            while s[j] != '"':
                if s[j] == '\\':
                    j += 1
                j += 1
        elif c == "'":
            m = re.match(r"'(\\.|[^\\'])'", s[j:])
            if m:
                j += m.end() - 1
        elif c == '{':
            depth += 1
        elif c == '}':
            depth -= 1
            if depth == 0:
                return j
        j += 1
    raise AnchorLost('unbalanced braces')


def find_block(s, header, start=0, end=None):
    end = len(s) if end is None else end
    idx = s.find(header, start, end)
    if idx < 0:
        raise AnchorLost('block header not found: %r' % header)
    if header.rstrip().endswith('{'):
        o = idx + len(header.rstrip()) - 1
    else:
        o = s.index('{', idx + len(header))
    c = match_brace(s, o)
    return idx, o, c


def find_fn(s, name, start, end):
    pat = re.compile(r'\bfn\s+' + re.escape(name) + r'\s*[(<]')
    for m in pat.finditer(s, start, end):
        j = m.end() - 1
        depth = 0
        while j < end:
            c = s[j]
            if c in '([':
                depth += 1
            elif c in ')]':
                depth -= 1
            elif depth == 0 and c in '{;':
                break
            j += 1
        if s[j] == '{':
            return m.start(), j, match_brace(s, j)
        return m.start(), j, None
    raise AnchorLost('fn not found: %s' % name)


class Edit:
    def __init__(self, pos, text, order=0, metas=None):
        self.pos, self.text, self.order, self.metas = pos, text, order, metas


def block_type_name(header):
    """'impl<T> Deref for Toggle<T> {' -> 'Toggle' ; 'pub trait Hash: Send + Sync {' -> 'Hash'"""
    h = header.strip().rstrip('{').strip()
    if h == '-' or not h:
        return None
    m = re.match(r'(?:pub\s+)?trait\s+(\w+)', h)
    if m:
        return m.group(1)
    m = re.match(r"impl(?:<[^>]*>)?\s+(.*)$", h)
    if m:
        rest = m.group(1)
        if ' for ' in rest:
            tr, ty = rest.split(' for ', 1)
            ty = re.match(r"[\w:]+", ty.strip()).group(0).split('::')[-1]
            return ty      # Verus names trait-impl methods Type::method as well
        return re.match(r"[\w:]+", rest.strip()).group(0).split('::')[-1]
    return h


def parse_vspec(text, fname):
    entries = []
    cur = None
    sub = None
    label = None

    def push(line, lineno):
        nonlocal label
        tgt = sub['lines'] if sub is not None else (cur['spec'] if cur['kind'] == 'fn' else cur['lines'])
        tgt.append((line, label, (fname, lineno)))
    for lineno, line in enumerate(text.split('\n'), 1):
        if line.startswith('@fn ') or line.startswith('@items '):
            kind, rest = line.split(' ', 1)
            parts = [p.strip() for p in rest.split('|')]
            cur = {'kind': kind[1:], 'mod': parts[0], 'block': parts[1] if len(parts) > 1 else '-',
                   'name': parts[2] if len(parts) > 2 else None, 'ret': None, 'spec': [], 'subs': [], 'lines': [],
                   'props': [], 'attr': None, 'where': (fname, lineno)}
            entries.append(cur)
            sub = None
            label = None
        elif cur is None:
            if line.strip() and not line.startswith('//'):
                raise AnchorLost('%s:%d: text outside an entry' % (fname, lineno))
        elif line.startswith('props ') and sub is None:
            cur['props'] = [p.strip() for p in line[6:].split(',') if p.strip()]
        elif line.startswith('ret ') and sub is None:
            cur['ret'] = line[4:].strip()
        elif line.startswith('attr ') and sub is None:
            cur['attr'] = line[5:].strip()
        elif line.startswith('#:'):
            parts = line[2:].split()
            label = (parts[0], [p for p in (parts[1].split(',') if len(parts) > 1 else []) if p])
        elif line.startswith('@loop ') or line.startswith('@iter ') or line.startswith('@hint ') or line.startswith('@closure ') or line.startswith('@split ') or line.startswith('@vacuity '):
            sub = {'head': line, 'lines': [], 'where': (fname, lineno)}
            cur['subs'].append(sub)
            label = None
        elif line.startswith('@end'):
            sub = None
            label = None
        elif line.startswith('//') and line.startswith('//-'):
            continue   # vspec comment
        else:
            push(line, lineno)
    return entries


def mod_range(s, modpath):
    start, end = 0, len(s)
    for m in modpath.split('::'):
        if not m or m == 'crate':
            continue
        _, o, c = find_block(s, 'pub mod %s {' % m, start, end)
        start, end = o + 1, c
    j = start
    while j < end:
        if s.startswith('verus! {', j):
            o = j + len('verus! ')
            return o + 1, match_brace(s, o)
        if s[j] == '{':
            j = match_brace(s, j)
        j += 1
    return start, end


def loops_in(s, a, b):
    res = []
    for m in re.finditer(r'(?m)^\s*(for\s.+?\sin\s|while\s|loop\s*\{)', s[a:b]):
        ks = a + m.start() + (len(m.group(0)) - len(m.group(0).lstrip()))
        j = a + m.end() - 1 if m.group(1).startswith('loop') else a + m.end()
        depth = 0
        while True:
            c = s[j]
            if c in '([':
                depth += 1
            elif c in ')]':
                depth -= 1
            elif c == '{' and depth == 0:
                break
            j += 1
        res.append((ks, j))
    return res


def _mk(lines, fnid, kind, default_props, indent=''):
    """lines: [(text, label, where)] -> (text block, metas)"""
    texts, metas = [], []
    for (t, lab, where) in lines:
        texts.append(t)
        if t.strip() == '':
            metas.append(None)
            continue
        if lab is None:
            metas.append({'fn': fnid, 'label': 'contract' if kind in ('spec', 'assumed') else kind, 'props': list(default_props),
                          'kind': kind, 'where': where, 'text': t.strip()})
        else:
            metas.append({'fn': fnid, 'label': lab[0], 'props': lab[1] or list(default_props), 'kind': kind,
                          'where': where, 'text': t.strip()})
    return '\n'.join(texts), metas


def _anchor_regex(stmt):
    """anchor text -> regex that tolerates re-formatting: any run of white space (also none) between tokens, line breaks
    after `(`/`,` and before `)`, rustfmt's trailing comma before `)`; `\u2026` stands for any text without `;{}`"""
    parts = []
    for chunk in stmt.split('\u2026'):
        toks = re.findall(r'\w+|\s+|[^\w\s]', chunk)
        out = []
        for t in toks:
            if t.isspace():
                out.append(r'\s*')
            elif t == ')':
                out.append(r'\s*,?\s*\)')
            elif re.match(r'\w+$', t):
                out.append(re.escape(t))
            else:
                out.append(r'\s*' + re.escape(t) + r'\s*')
        parts.append(''.join(out))
    return re.compile('[^;{}]*?'.join(parts))


def _find_anchor(src, stmt, start, end):
    """-> (pos, length) of the next occurrence of the anchor at or after `start` (exact text first, then the
    formatting-tolerant regex), or (-1, 0)"""
    if '\u2026' not in stmt:
        p0 = src.find(stmt, start, end)
        if p0 >= 0:
            return p0, len(stmt)
    mm = _anchor_regex(stmt).search(src, start, end)
    return (mm.start(), mm.end() - mm.start()) if mm else (-1, 0)


_PROBE_COUNTER = [0]


def _probe_no():
    _PROBE_COUNTER[0] += 1
    return _PROBE_COUNTER[0]


def _weave_sub(sub, e, fnid, src, sig_end, body_close, lps, edits, vacuity, split=None, splits=None):
    head = sub['head']
    lines = [x for x in sub['lines']]
    while lines and lines[-1][0].strip() == '':
        lines.pop()
    if head.startswith('@loop '):
        k = int(head.split()[1])
        if k > len(lps):
            raise AnchorLost('loop %d of %s' % (k, fnid))
        text, metas = _mk(lines, fnid, 'invariant', e['props'])
        edits.append(Edit(lps[k - 1][1], '\n' + text + '\n', 5, [None] + metas + [None]))
        if vacuity:
            edits.append(Edit(lps[k - 1][1] + 1, '\n proof { let vp_c: bool = arbitrary::<Seq<bool>>()[%d]; if vp_c { assert(false); } } //@@VACUITY-PROBE %s loop %d\n' % (_probe_no(), fnid, k), 6,
                              [None, {'fn': fnid, 'label': 'vacuity-probe-loop%d' % k, 'props': [], 'kind': 'vacuity', 'where': sub['where'], 'text': ''}, None]))
    elif head.startswith('@iter '):
        _, k, nm = head.split()
        if int(k) > len(lps):
            raise AnchorLost('loop %s of %s' % (k, fnid))
        ks, ob = lps[int(k) - 1]
        m = re.match(r'for\s+(.+?)\s+in\s+', src[ks:ob])
        if not m:
            raise AnchorLost('loop %s of %s is not a for loop' % (k, fnid))
        edits.append(Edit(ks + m.end(), nm + ': ', 4))
    elif head.startswith('@split '):
        # @split <case> :: <anchor text> [:: <anchor text> ...]   path-split verification: the function is verified once per
        # case with every OTHER case cut by `assume(false)` right after its anchor(s), and once with all cases cut.
        parts = [x.strip() for x in head[len('@split '):].split(' :: ')]
        case, anchors = parts[0], parts[1:]
        splits.setdefault(fnid, [])
        if case not in splits[fnid]:
            splits[fnid].append(case)
        cut = split is not None and not (split[0] == fnid and split[1] == case)
        for a in anchors:
            m = re.match(r'(\d+)\s+(.*)$', a)
            k, text = (int(m.group(1)), m.group(2)) if m else (1, a)
            pos, ln = sig_end, 0
            for _ in range(k):
                pos, ln = _find_anchor(src, text, pos + 1, body_close)
                if pos < 0:
                    raise AnchorLost('split anchor %r #%d in %s' % (text, k, fnid))
            if cut:
                edits.append(Edit(pos + ln, ' proof { assume(false); } //@@SPLIT-CUT %s\n' % case, 9))
    elif head.strip() == '@hint start':
        text, metas = _mk(lines, fnid, 'hint', e['props'])
        edits.append(Edit(sig_end + 1, '\n' + text + '\n', 4, [None] + metas + [None]))
    elif head.strip() == '@hint tail':
        # before the trailing expression of the body (after the last ';' or '}' inside the body)
        inner = src[sig_end + 1:body_close]
        at = sig_end + 1 + max(inner.rfind(';'), inner.rfind('}')) + 1
        text, metas = _mk(lines, fnid, 'hint', e['props'])
        edits.append(Edit(at, '\n' + text + '\n', 6, [None] + metas + [None]))
    elif head.startswith('@vacuity '):
        # @vacuity (after|before) <k> :: <anchor>   an extra must-fail probe (vacuity build only): `assert(false)` at a point
        # reached only after contracts of assumed functions have been used, so that a contradiction among them is noticed
        m = re.match(r'@vacuity (after|before) (\d+) :: (.*)$', head)
        if not m:
            raise AnchorLost('bad vacuity header %r' % head)
        if vacuity:
            where_, k, stmt = m.group(1), int(m.group(2)), m.group(3)
            pos, ln = sig_end, 0
            for _ in range(k):
                pos, ln = _find_anchor(src, stmt, pos + 1, body_close)
                if pos < 0:
                    raise AnchorLost('vacuity anchor %r #%d in %s' % (stmt, k, fnid))
            at = pos if where_ == 'before' else pos + ln
            edits.append(Edit(at, '\n proof { let vp_c: bool = arbitrary::<Seq<bool>>()[%d]; if vp_c { assert(false); } } //@@VACUITY-PROBE %s at %s\n' % (_probe_no(), fnid, stmt[:30]), 8,
                              [None, {'fn': fnid, 'label': 'vacuity-probe-point[%s %d %s]' % (where_, k, stmt[:40]), 'props': [], 'kind': 'vacuity', 'where': sub['where'], 'text': ''}, None]))
    elif re.match(r'@hint (beforeloop|afterloop) \d+\s*$', head):
        # just before the k-th loop statement / just after its closing brace (structural anchors)
        which, k = head.split()[1], int(head.split()[2])
        if k > len(lps):
            raise AnchorLost('loop %d of %s' % (k, fnid))
        ks, ob = lps[k - 1]
        at = ks if which == 'beforeloop' else match_brace(src, ob) + 1
        text, metas = _mk(lines, fnid, 'hint', e['props'])
        edits.append(Edit(at, '\n' + text + '\n', 6, [None] + metas + [None]))
    elif re.match(r'@hint loopstart \d+\s*$', head):
        # first statement of the body of the k-th loop (structural anchor: survives edits of the loop's statements)
        k = int(head.split()[2])
        if k > len(lps):
            raise AnchorLost('loop %d of %s' % (k, fnid))
        text, metas = _mk(lines, fnid, 'hint', e['props'])
        edits.append(Edit(lps[k - 1][1] + 1, '\n' + text + '\n', 7, [None] + metas + [None]))
    elif head.startswith('@hint '):
        m = re.match(r'@hint (after|before) (\d+) :: (.*)$', head)
        if not m:
            raise AnchorLost('bad hint header %r' % head)
        where_, k, stmt = m.group(1), int(m.group(2)), m.group(3)
        pos = sig_end
        mlen = len(stmt)
        # `…` in an anchor stands for any text without `;{}` (e.g. the name of a local variable)
        rx = _anchor_regex(stmt)
        for _ in range(k):
            p0 = src.find(stmt, pos + 1, body_close) if '\u2026' not in stmt else -1
            if p0 >= 0:
                pos, mlen = p0, len(stmt)        # exact text first
            else:
                mm = rx.search(src, pos + 1, body_close)
                pos, mlen = (mm.start(), mm.end() - mm.start()) if mm else (-1, 0)
            if pos < 0:
                raise AnchorLost('hint anchor %r #%d in %s' % (stmt, k, fnid))
        at = pos if where_ == 'before' else pos + mlen
        if where_ == 'before':
            # the anchor text may have become the tail of a longer statement (`let x = <anchor>`): proof text goes
            # before the whole statement, never into the middle of one
            q = pos - 1
            while q > sig_end and src[q] not in ';{}':
                q -= 1
            if src[q + 1:pos].strip() and not src[q + 1:pos].strip().startswith('//'):
                at = q + 1
        text, metas = _mk(lines, fnid, 'hint', e['props'])
        edits.append(Edit(at, '\n' + text + '\n', 6, [None] + metas + [None]))
    elif head.startswith('@closure '):
        # @closure <k> :: <binder: type> :: <requires/ensures clause text>
        m = re.match(r'@closure (\d+) :: (.*?) :: (.*)$', head)
        if not m:
            raise AnchorLost('bad closure header %r' % head)
        k, binder, clauses = int(m.group(1)), m.group(2), m.group(3)
        if not re.match(r'\s*(requires|ensures)\b', clauses):
            clauses = 'ensures ' + clauses
        # a closure starts with '|' whose previous non-blank char is one of ( , =
        starts = []
        for mm in re.finditer(r'\|', src[sig_end:body_close]):
            p0 = sig_end + mm.start()
            q = p0 - 1
            while src[q] in ' \t\n':
                q -= 1
            if src[q] in '(,=' and not (src[q] == '=' and src[q - 1] in '|&'):
                starts.append(p0)
        if k > len(starts):
            raise AnchorLost('closure %d in %s' % (k, fnid))
        pos = starts[k - 1]
        pe = src.index('|', pos + 1)      # end of the parameter list
        j = pe + 1
        depth = 0
        while True:
            c = src[j]
            if c in '([{':
                depth += 1
            elif c in ')]}':
                if depth == 0:
                    break
                depth -= 1
            elif c == ',' and depth == 0:
                break
            j += 1
        edits.append(Edit(pe + 1, ' -> (%s) %s {' % (binder, clauses), 7))
        edits.append(Edit(j, ' }', 8))


def _entry_props(e):
    """every property id a contract entry mentions (entry level and label level)"""
    ps = set(e.get('props') or [])
    for (line, label, where) in list(e.get('spec', [])) + [x for sub in e.get('subs', []) for x in sub['lines']]:
        if label and label[1]:
            ps.update(label[1])
    return sorted(ps)


def weave(src, vspecs, vacuity=False, split=None, isolate=()):
    """vspecs: [(filename, text)].  Returns (woven text, info) where info has:
       line_meta: {woven line -> meta}, fns: [{id, props, start_line, end_line, contract:bool}], obligations"""
    entries = []
    for fname, text in vspecs:
        entries += parse_vspec(text, fname)
    edits = []
    fn_entries = []
    normalised = []
    lost_hints = []
    lost_entries = []
    isolated = []
    splits = {}      # fn id -> [case name, ...]   (path-split verification, see _weave_sub '@split')
    for e in entries:
        ms, me = mod_range(src, e['mod'])
        bs, be = ms, me
        if e['block'] != '-':
            try:
                _, o, c = find_block(src, e['block'], ms, me)
            except AnchorLost:
                if e['kind'] == 'items':
                    raise
                # the impl block the contract was written for no longer exists (e.g. `impl From<..>` turned into
                # `impl TryFrom<..>`): same treatment as a function that no longer exists
                tn0 = block_type_name(e['block'])
                lost_entries.append({'fn': '::'.join([p for p in [e['mod'], tn0, e['name']] if p]), 'props': _entry_props(e)})
                continue
            bs, be = o + 1, c
        if e['kind'] == 'items':
            text, metas = _mk(e['lines'], None, 'items', [])
            edits.append(Edit(bs, '\n' + text + '\n', 0, [None] + [None] * len(metas) + [None]))
            continue
        tn = block_type_name(e['block'])
        fnid = '::'.join([p for p in [e['mod'], tn, e['name']] if p])
        if e['block'] != '-':
            # several blocks may share a header (e.g. two `impl X {`): take the first that has the fn
            pos = ms
            found = None
            while True:
                try:
                    _, o, c = find_block(src, e['block'], pos, me)
                except AnchorLost:
                    break
                try:
                    found = find_fn(src, e['name'], o + 1, c)
                    bs, be = o + 1, c
                    break
                except AnchorLost:
                    pos = c
            if found is None:
                # the function the contract was written for no longer exists (renamed, inlined, removed): its entry is
                # skipped and recorded; the checker leaves every property the entry serves undecided
                lost_entries.append({'fn': fnid, 'props': _entry_props(e)})
                continue
        try:
            kw, sig_end, body_close = find_fn(src, e['name'], bs, be)
        except AnchorLost:
            lost_entries.append({'fn': fnid, 'props': _entry_props(e)})
            continue
        sig = src[kw:sig_end]
        if e.get('attr'):
            edits.append(Edit(kw, e['attr'] + ' ', -1))
        if e['ret']:
            m = re.search(r'\)\s*->\s*', sig)
            if not m:
                raise AnchorLost('no return type on %s' % fnid)
            rt_start = kw + m.end()
            rt = src[rt_start:sig_end].rstrip()
            edits.append(Edit(rt_start, '(%s: ' % e['ret'], 0))
            edits.append(Edit(rt_start + len(rt), ')', 1))
        # a contract written for `&mut self` stays meaningful when the real signature takes `&self` (a refactor that
        # drops the mutability): old(self)/final(self) both denote self then.  Mechanical normalisation, recorded.
        takes_mut_self = re.search(r'\(\s*&\s*(?:\'\w+\s+)?mut\s+self\b', sig) is not None
        if not takes_mut_self:
            def norm(lines):
                return [(re.sub(r'\b(?:old|final)\(self\)', 'self', t), lab, wh) for (t, lab, wh) in lines]
            if any(re.search(r'\b(?:old|final)\(self\)', t) for (t, _, _) in e['spec']):
                e['spec'] = norm(e['spec'])
                for sub in e['subs']:
                    sub['lines'] = norm(sub['lines'])
                normalised.append(fnid)
        spec_lines = [x for x in e['spec']]
        while spec_lines and spec_lines[-1][0].strip() == '':
            spec_lines.pop()
        if spec_lines:
            text, metas = _mk(spec_lines, fnid, 'spec' if (body_close is not None and 'external_body' not in (e.get('attr') or '')) else 'assumed', e['props'])
            edits.append(Edit(sig_end, '\n' + text + '\n', 2, [None] + metas + [None]))
        tm = re.match(r"\s*impl(?:<[^>]*>)?\s+([\w:]+)(?:<[^{]*>)?\s+for\s+", e['block'])
        fn_entries.append({'id': fnid, 'props': e['props'], 'kw': kw, 'close': body_close if body_close else sig_end,
                           'has_body': body_close is not None and 'external_body' not in (e.get('attr') or ''), 'where': e['where'], 'mod': e['mod'], 'name': e['name'],
                           'impl_of_trait': tm.group(1).split('::')[-1] if tm else None,
                           'decl_of_trait': block_type_name(e['block']) if re.match(r'\s*(pub\s+)?trait\b', e['block']) else None})
        if body_close is None:
            continue
        if fnid in isolate:
            # a proof anchor of this function was lost and the remaining proof text did not compile: keep the contract,
            # leave the body out of this run (the function is reported as not verified -> undecided, never as an alarm)
            ls = src.rfind('\n', 0, kw) + 1
            while src[ls] in ' \t':
                ls += 1
            edits.append(Edit(ls, '#[verifier::external_body] /*@@ISOLATED*/ ', -2))
            # the body is also kept away from rustc's type checker (it may be the proof text in it, or the code, that no
            # longer compiles inside verus!): cfg'd-out block + a diverging tail
            edits.append(Edit(sig_end + 1, ' #[cfg(any())] {', -2))
            edits.append(Edit(body_close, '} unimplemented!() ', 99))
            isolated.append(fnid)
            continue
        if vacuity and 'external_body' not in (e.get('attr') or ''):
            edits.append(Edit(sig_end + 1, '\n proof { let vp_c: bool = arbitrary::<Seq<bool>>()[%d]; if vp_c { assert(false); } } //@@VACUITY-PROBE %s\n' % (_probe_no(), fnid), 3,
                              [None, {'fn': fnid, 'label': 'vacuity-probe', 'props': [], 'kind': 'vacuity', 'where': e['where'], 'text': ''}, None]))
        lps = loops_in(src, sig_end, body_close)
        for sub in e['subs']:
          try:
            _weave_sub(sub, e, fnid, src, sig_end, body_close, lps, edits, vacuity, split, splits)
          except AnchorLost as ex:
            lost_hints.append({'fn': fnid, 'anchor': sub['head'], 'why': str(ex), 'where': '%s:%d' % sub['where']})
        continue
    edits.sort(key=lambda x: (x.pos, x.order))
    out = []
    last = 0
    line = 1   # current 1-based line number of the next character to be emitted
    line_meta = {}
    offs = []  # (src pos, cumulative inserted length after this edit)
    cum = 0
    for ed in edits:
        chunk = src[last:ed.pos]
        out.append(chunk)
        line += chunk.count('\n')
        if ed.metas:
            parts = ed.text.split('\n')
            for i, meta in enumerate(ed.metas):
                if meta is not None and i < len(parts):
                    line_meta[line + i] = meta
        out.append(ed.text)
        line += ed.text.count('\n')
        last = ed.pos
        cum += len(ed.text)
        offs.append((ed.pos, cum))
    out.append(src[last:])
    woven = ''.join(out)

    def map_pos(p):
        """extracted offset -> woven offset (edits at pos <= p come before the char at p)"""
        import bisect
        i = bisect.bisect_right([o[0] for o in offs], p)
        return p + (offs[i - 1][1] if i > 0 else 0)
    # line starts of woven text
    starts = [0]
    for m in re.finditer('\n', woven):
        starts.append(m.end())

    def line_of(woff):
        import bisect
        return bisect.bisect_right(starts, woff)
    for fe in fn_entries:
        fe['start_line'] = line_of(map_pos(fe['kw']))
        fe['end_line'] = line_of(map_pos(fe['close']))
    info = {'line_meta': line_meta, 'fn_entries': fn_entries, 'map_pos': map_pos, 'line_of': line_of, 'normalised_receivers': normalised, 'lost_hints': lost_hints, 'lost_entries': lost_entries, 'splits': splits, 'isolated': isolated}
    return woven, info


def index_items(text):
    """Index every fn header line of a (woven) text by the closest-preceding-header rule.
    Returns sorted list of (line, fnid) plus container ranges.  Containers (mod/impl/trait) are found by
    brace matching on their header lines, which never contain contract text."""
    containers = []   # (start_off, end_off, name)
    for m in re.finditer(r'(?m)^[ \t]*(?:pub(?:\([a-z]+\))? )?mod (\w+) \{', text):
        o = m.end() - 1
        containers.append((m.start(), match_brace(text, o), m.group(1), 'mod', None))
    for m in re.finditer(r"(?m)^[ \t]*(?:pub )?(?:trait \w+[^{;\n]*|impl\b[^{;\n]*)\{", text):
        o = m.end() - 1
        try:
            c = match_brace(text, o)
        except Exception:
            continue
        tm = re.match(r"\s*(?:pub )?impl(?:<[^>]*>)?\s+([\w:]+)(?:<[^{]*>)?\s+for\s+", m.group(0))
        containers.append((m.start(), c, block_type_name(m.group(0).strip()), 'type', tm.group(1).split('::')[-1] if tm else None))
    fns = []
    fn_trait = {}
    for m in re.finditer(r'(?m)^[ \t]*(?:#\[[^\]]*\]\s*)*(?:pub(?:\([a-z]+\))? )?(?:(?:open|closed|uninterp|broadcast|const|unsafe) )*(?:(?:spec|proof|exec) )?fn (\w+)', text):
        off = m.start()
        names = [c for c in containers if c[0] < off <= c[1]]
        names.sort(key=lambda c: c[0])
        path = [c[2] for c in names if c[3] == 'mod'] + [c[2] for c in names if c[3] == 'type' and c[2]]
        fid = '::'.join(path + [m.group(1)])
        fns.append((text.count('\n', 0, m.end()) + 1, fid))
        tr = [c[4] for c in names if c[3] == 'type' and len(c) > 4 and c[4]]
        if tr:
            fn_trait[fid] = tr[-1]
    fns.sort()
    index_items.last_fn_trait = fn_trait
    return fns
