//! Demonstration of known finding D5 (C10, feature `use-p256` only).  Copy to /repo/tests/ in a scratch copy and run
//!   cargo test --offline --features use-p256 --test d5_p256 -- --nocapture
//! Expected on the current tree: both cases print PANIC (the test itself passes; it documents, it does not gate).
use snow::{params::*, resolvers::*, types::*, Builder};
use std::panic::catch_unwind;

struct AllOnes;
impl rand::RngCore for AllOnes {
    fn next_u32(&mut self) -> u32 { u32::MAX }
    fn next_u64(&mut self) -> u64 { u64::MAX }
    fn fill_bytes(&mut self, d: &mut [u8]) { for b in d.iter_mut() { *b = 0xff; } }
    fn try_fill_bytes(&mut self, d: &mut [u8]) -> Result<(), rand::Error> { self.fill_bytes(d); Ok(()) }
}
impl rand::CryptoRng for AllOnes {}
impl Random for AllOnes {}
struct R;
impl CryptoResolver for R {
    fn resolve_rng(&self) -> Option<Box<dyn Random>> { Some(Box::new(AllOnes)) }
    fn resolve_dh(&self, c: &DHChoice) -> Option<Box<dyn Dh>> { DefaultResolver.resolve_dh(c) }
    fn resolve_hash(&self, c: &HashChoice) -> Option<Box<dyn Hash>> { DefaultResolver.resolve_hash(c) }
    fn resolve_cipher(&self, c: &CipherChoice) -> Option<Box<dyn Cipher>> { DefaultResolver.resolve_cipher(c) }
}
#[test]
fn d5() {
    let name = "Noise_NN_P256_ChaChaPoly_SHA256";
    // D5a: an invalid scalar supplied by the caller
    let a = catch_unwind(|| Builder::new(name.parse().unwrap()).local_private_key(&[0u8; 32]).unwrap().build_initiator().map(|_| ()));
    println!("D5a local_private_key(&[0;32]) then build_initiator(): {}", if a.is_err() { "PANIC" } else { "no panic" });
    // D5b: an RNG output that is not a valid scalar (probability ~2^-32 with a real RNG)
    let b = catch_unwind(|| { let mut i = Builder::with_resolver(name.parse().unwrap(), Box::new(R)).build_initiator().unwrap(); let mut buf = [0u8; 200]; i.write_message(b"", &mut buf).map(|_| ()) });
    println!("D5b write_message with an RNG returning 0xff..ff: {}", if b.is_err() { "PANIC" } else { "no panic" });
}
