//! Replay / counterexample-search probe (NOT the deciding step: the deciding step is the Verus proof).
//! Built against a scratch copy of /repo's working tree.  When an obligation fails or a function falls outside the
//! verifier's reach, the driver runs the tests of the affected property here to look for a CONCRETE failing input on
//! the real code.  Oracle: the cacophony test vectors shipped in tests/vectors/ (an independent Haskell
//! implementation of Noise) plus the property statements themselves.  Findings are printed as
//!   PROBE-FINDING property=<id> | <what fails, with the concrete input>
#![allow(non_snake_case, dead_code, clippy::all)]
use snow::{params::*, resolvers::*, types::*, Builder, Error, HandshakeState};
use std::panic::{catch_unwind, AssertUnwindSafe};
use std::sync::{Arc, Mutex};

fn unhex(s: &str) -> Vec<u8> {
    (0..s.len() / 2).map(|i| u8::from_str_radix(&s[2 * i..2 * i + 2], 16).unwrap()).collect()
}
fn hexs(b: &[u8]) -> String {
    b.iter().map(|x| format!("{:02x}", x)).collect()
}
fn finding(prop: &str, what: String) {
    println!("PROBE-FINDING property={} | {}", prop, what);
}

#[derive(Clone, Default)]
struct V {
    name: String,
    i_prologue: Vec<u8>, r_prologue: Vec<u8>,
    i_static: Option<Vec<u8>>, r_static: Option<Vec<u8>>,
    i_eph: Option<Vec<u8>>, r_eph: Option<Vec<u8>>,
    i_rs: Option<Vec<u8>>, r_rs: Option<Vec<u8>>,
    i_psks: Vec<Vec<u8>>, r_psks: Vec<Vec<u8>>,
    hash: Option<Vec<u8>>,
    msgs: Vec<(Vec<u8>, Vec<u8>)>,
}

fn vectors() -> Vec<V> {
    let path = concat!(env!("CARGO_MANIFEST_DIR"), "/tests/vectors/cacophony.txt");
    let text = std::fs::read_to_string(path).expect("vectors file");
    let j: serde_json::Value = serde_json::from_str(&text).expect("json");
    let mut out = vec![];
    for v in j["vectors"].as_array().unwrap() {
        let g = |k: &str| v.get(k).and_then(|x| x.as_str()).map(unhex);
        let ga = |k: &str| v.get(k).and_then(|x| x.as_array()).map(|a| a.iter().map(|s| unhex(s.as_str().unwrap())).collect::<Vec<_>>()).unwrap_or_default();
        let name = v["protocol_name"].as_str().unwrap().to_string();
        if name.contains("_448_") { continue; }
        out.push(V {
            name,
            i_prologue: g("init_prologue").unwrap_or_default(), r_prologue: g("resp_prologue").unwrap_or_default(),
            i_static: g("init_static"), r_static: g("resp_static"), i_eph: g("init_ephemeral"), r_eph: g("resp_ephemeral"),
            i_rs: g("init_remote_static"), r_rs: g("resp_remote_static"),
            i_psks: ga("init_psks"), r_psks: ga("resp_psks"), hash: g("handshake_hash"),
            msgs: v["messages"].as_array().unwrap().iter().map(|m| (unhex(m["payload"].as_str().unwrap()), unhex(m["ciphertext"].as_str().unwrap()))).collect(),
        });
    }
    out
}
/// a small, pattern-complete subset (one primitive combination) for the expensive sweeps
fn vectors_small() -> Vec<V> {
    vectors().into_iter().filter(|v| v.name.ends_with("_25519_ChaChaPoly_SHA256") || v.name.ends_with("_25519_AESGCM_BLAKE2b")).collect()
}

fn psk_positions(name: &str) -> Vec<u8> {
    let hs = name.split('_').nth(1).unwrap();
    let mut v = vec![];
    for part in hs.split('+') {
        if let Some(i) = part.find("psk") {
            v.push(part[i + 3..].parse::<u8>().unwrap());
        }
    }
    v
}

fn mk(v: &V, initiator: bool, resolver: Option<BoxedCryptoResolver>) -> Result<HandshakeState, Error> {
    let params: NoiseParams = v.name.parse()?;
    let mut b = match resolver { Some(r) => Builder::with_resolver(params, r), None => Builder::new(params) };
    let (stat, eph, rs, psks, prologue) = if initiator { (&v.i_static, &v.i_eph, &v.i_rs, &v.i_psks, &v.i_prologue) } else { (&v.r_static, &v.r_eph, &v.r_rs, &v.r_psks, &v.r_prologue) };
    b = b.prologue(prologue)?;
    if let Some(s) = stat { b = b.local_private_key(s)?; }
    if let Some(e) = eph { b = b.fixed_ephemeral_key_for_testing_only(e); }
    if let Some(r) = rs { b = b.remote_public_key(r)?; }
    let pos = psk_positions(&v.name);
    let mut arrs: Vec<[u8; 32]> = vec![];
    for p in psks { let mut a = [0u8; 32]; a.copy_from_slice(p); arrs.push(a); }
    for (k, a) in arrs.iter().enumerate() { b = b.psk(pos[k], a)?; }
    if initiator { b.build_initiator() } else { b.build_responder() }
}

fn n_handshake_msgs(name: &str) -> usize {
    let hs = name.split('_').nth(1).unwrap();
    let base: String = hs.chars().take_while(|c| c.is_ascii_uppercase() || c.is_ascii_digit()).collect();
    match base.as_str() {
        "N" | "K" | "X" => 1,
        "NN" | "NK" | "NX" | "KN" | "KK" | "KX" | "IN" | "IK" | "IX" | "NK1" | "KK1" | "IK1" => 2,
        "XN" | "XK" | "XX" | "NX1" | "XK1" | "XX1" | "K1N" | "K1K" | "K1K1" | "K1X" | "KX1" | "K1X1" | "I1N" | "I1K" | "I1K1" | "I1X" | "IX1" | "I1X1" => 3,
        _ => 4,
    }
}

/// straight replay of a vector; `hook(step, writer, reader)` may inject faults before step `k` (0-based message index)
fn replay<F: FnMut(usize, &mut HandshakeState, &mut HandshakeState, &V)>(v: &V, prop: &str, mut hook: F) -> bool { replay2(v, prop, &mut hook, false) }
fn replay2(v: &V, prop: &str, hook: &mut dyn FnMut(usize, &mut HandshakeState, &mut HandshakeState, &V), read_faults: bool) -> bool {
    let (mut i, mut r) = match (mk(v, true, None), mk(v, false, None)) { (Ok(a), Ok(b)) => (a, b), (a, b) => { finding("C12", format!("{}: honest configuration from the test vector is rejected at build time: {:?} {:?}", v.name, a.err(), b.err())); return false; } };
    let nh = n_handshake_msgs(&v.name);
    let mut buf = vec![0u8; 70000]; let mut pbuf = vec![0u8; 70000];
    for k in 0..nh.min(v.msgs.len()) {
        let (payload, expect) = &v.msgs[k];
        let (w, rd) = if k % 2 == 0 { (&mut i, &mut r) } else { (&mut r, &mut i) };
        hook(k, w, rd, v);
        match w.write_message(payload, &mut buf) {
            Ok(n) => if &buf[..n] != &expect[..] { finding(prop, format!("{}: handshake message {} differs from the reference (cacophony vector): got {} expected {}", v.name, k, hexs(&buf[..n.min(80)]), hexs(&expect[..expect.len().min(80)]))); return false; },
            Err(e) => { finding(prop, format!("{}: write of handshake message {} (payload {} bytes) failed with {:?}", v.name, k, payload.len(), e)); return false; }
        }
        if read_faults { let enc = w.was_write_payload_encrypted(); inject_read_faults(k, rd, v, enc); }
        match rd.read_message(expect, &mut pbuf) {
            Ok(n) => if &pbuf[..n] != &payload[..] { finding(prop, format!("{}: payload of message {} not delivered intact", v.name, k)); return false; },
            Err(e) => { finding(prop, format!("{}: honest reader rejects reference message {} with {:?}", v.name, k, e)); return false; }
        }
    }
    if !(i.is_handshake_finished() && r.is_handshake_finished()) { finding(prop, format!("{}: handshake not finished after {} messages", v.name, nh)); return false; }
    if let Some(h) = &v.hash { if i.get_handshake_hash() != &h[..] || r.get_handshake_hash() != &h[..] { finding(prop, format!("{}: handshake hash differs from the reference", v.name)); return false; } }
    // transport messages of the vector
    let oneway = nh == 1;
    let (mut ti, mut tr) = match (i.into_transport_mode(), r.into_transport_mode()) { (Ok(a), Ok(b)) => (a, b), _ => { finding(prop, format!("{}: into_transport_mode failed after a complete handshake", v.name)); return false; } };
    for k in nh..v.msgs.len() {
        let (payload, expect) = &v.msgs[k];
        let i_sends = oneway || k % 2 == 0;
        let (w, rd) = if i_sends { (&mut ti, &mut tr) } else { (&mut tr, &mut ti) };
        match w.write_message(payload, &mut buf) {
            Ok(n) => if &buf[..n] != &expect[..] { finding(prop, format!("{}: transport message {} differs from the reference", v.name, k)); return false; },
            Err(e) => { finding(prop, format!("{}: transport write {} failed {:?}", v.name, k, e)); return false; }
        }
        match rd.read_message(expect, &mut pbuf) {
            Ok(n) => if &pbuf[..n] != &payload[..] { finding(prop, format!("{}: transport payload {} not delivered intact", v.name, k)); return false; },
            Err(e) => { finding(prop, format!("{}: transport read {} failed {:?}", v.name, k, e)); return false; }
        }
    }
    true
}

fn limited<I: Iterator<Item = V>>(it: I, mut f: impl FnMut(&V) -> bool) -> usize {
    let mut bad = 0;
    for v in it { if !f(&v) { bad += 1; if bad >= 4 { break; } } }
    bad
}

// ------------------------------------------------------------------------------------------------ C01 / C02 / C08 / C18 / C20
#[test]
fn C01_reference_vectors() { let bad = limited(vectors().into_iter(), |v| replay(v, "C01", |_, _, _, _| {})); assert_eq!(bad, 0); }
#[test]
fn C02_honest_sessions() { let bad = limited(vectors().into_iter(), |v| replay(v, "C02", |_, _, _, _| {})); assert_eq!(bad, 0); }
#[test]
fn C18_primitives_against_vectors() { let bad = limited(vectors().into_iter(), |v| replay(v, "C18", |_, _, _, _| {})); assert_eq!(bad, 0); }

// ------------------------------------------------------------------------------------------------ C07 / C06 / C11
fn inject_faults(k: usize, w: &mut HandshakeState, rd: &mut HandshakeState, v: &V) {
    let (payload, expect) = &v.msgs[k];
    // writer-side failures: undersized buffers at every length up to the full message (+ slack), oversize payload
    let mut lens: Vec<usize> = (0..expect.len()).collect();
    if lens.len() > 400 { lens = lens.into_iter().step_by(7).collect(); }
    for l in lens { let mut small = vec![0u8; l]; let _ = w.write_message(payload, &mut small); if !w.is_my_turn() { return; } }
    let big = vec![7u8; 65535]; let mut out = vec![0u8; 70000];
    let _ = w.write_message(&big, &mut out);
    // out-of-phase calls on both sides
    let mut p = vec![0u8; 70000];
    let _ = w.read_message(expect, &mut p);
    let _ = rd.write_message(payload, &mut out);
}
/// reader-side failures that the specification guarantees to be rejected: every truncation and bit flip when the payload
/// is encrypted (then everything in the message is authenticated), only "shorter than a public key" otherwise
fn inject_read_faults(k: usize, rd: &mut HandshakeState, v: &V, payload_encrypted: bool) {
    let (payload, expect) = &v.msgs[k];
    let mut p = vec![0u8; 70000];
    let upto = if payload_encrypted { expect.len() } else { 32.min(expect.len()) };
    // C03: with an encrypted payload every byte of the message is authenticated (h is the associated data), so the receiving read
    // itself must reject every truncation, bit flip and extension
    let mut accepted = |what: String, r: Result<usize, Error>| { if r.is_ok() && payload_encrypted { finding("C03", format!("{}: handshake message {} {} is accepted by the receiver", v.name, k, what)); } };
    for cut in 0..upto { let r = rd.read_message(&expect[..cut], &mut p); accepted(format!("truncated from {} to {} bytes", expect.len(), cut), r); }
    if payload_encrypted {
        let step = (expect.len() / 40).max(1);
        for pos in (0..expect.len()).step_by(step) { let mut m = expect.clone(); m[pos] ^= 0x40; let r = rd.read_message(&m, &mut p); accepted(format!("with bit 6 of byte {} flipped", pos), r); }
        let mut ext = expect.clone(); ext.push(0); let r = rd.read_message(&ext, &mut p); accepted("extended by one zero byte".to_string(), r);
    }
    if !payload.is_empty() { let mut tiny = vec![0u8; payload.len() - 1]; let _ = rd.read_message(expect, &mut tiny); }
    let _ = rd.read_message(&vec![0u8; 65536], &mut p);
}
#[test]
fn C07_failed_calls_are_noops() { let bad = limited(vectors_small().into_iter(), |v| replay2(v, "C07", &mut inject_faults, true)); assert_eq!(bad, 0); }
#[test]
fn C11_out_of_phase_calls() {
    let mut bad = 0;
    for v in vectors_small() {
        let (mut i, mut r) = match (mk(&v, true, None), mk(&v, false, None)) { (Ok(a), Ok(b)) => (a, b), _ => continue };
        let nh = n_handshake_msgs(&v.name);
        let mut buf = vec![0u8; 70000]; let mut p = vec![0u8; 70000];
        for k in 0..=nh {
            let i_turn = k % 2 == 0;
            if i.is_my_turn() != (i_turn && k < nh || (k == nh && i_turn)) && k < nh { finding("C11", format!("{}: is_my_turn of the initiator before message {} is {}", v.name, k, i.is_my_turn())); bad += 1; break; }
            if i.is_handshake_finished() != (k == nh) || r.is_handshake_finished() != (k == nh) { finding("C11", format!("{}: is_handshake_finished wrong before message {}", v.name, k)); bad += 1; break; }
            let (w, rd) = if i_turn { (&mut i, &mut r) } else { (&mut r, &mut i) };
            if k < nh {
                // the party whose turn it is NOT cannot write; the party whose turn it is cannot read; twice, to see that the first rejection had no effect
                for _ in 0..2 {
                    match rd.write_message(b"x", &mut buf) { Err(Error::State(snow::error::StateProblem::NotTurnToWrite)) => {}, o => { finding("C11", format!("{}: out-of-turn write before message {} returned {:?}", v.name, k, o)); bad += 1; } }
                    match w.read_message(&v.msgs[k].1, &mut p) { Err(Error::State(snow::error::StateProblem::NotTurnToRead)) => {}, o => { finding("C11", format!("{}: out-of-turn read before message {} returned {:?}", v.name, k, o)); bad += 1; } }
                }
                let n = match w.write_message(&v.msgs[k].0, &mut buf) { Ok(n) => n, Err(e) => { finding("C11", format!("{}: in-turn write {} failed after out-of-turn calls: {:?}", v.name, k, e)); bad += 1; break; } };
                if rd.read_message(&buf[..n], &mut p).is_err() { finding("C11", format!("{}: in-turn read {} failed after out-of-turn calls", v.name, k)); bad += 1; break; }
            } else {
                // after the last message the indicators keep alternating and every call is the documented state error
                use snow::error::StateProblem as SP;
                if !w.is_my_turn() || rd.is_my_turn() { finding("C11", format!("{}: after the last handshake message is_my_turn() is {} for the party that read it and {} for the party that wrote it", v.name, w.is_my_turn(), rd.is_my_turn())); bad += 1; }
                for _ in 0..2 {
                    let got = (w.write_message(b"x", &mut buf), rd.read_message(&[0u8; 48], &mut p), w.read_message(&[0u8; 48], &mut p), rd.write_message(b"x", &mut buf));
                    if got != (Err(Error::State(SP::HandshakeAlreadyFinished)), Err(Error::State(SP::HandshakeAlreadyFinished)), Err(Error::State(SP::NotTurnToRead)), Err(Error::State(SP::NotTurnToWrite))) {
                        finding("C11", format!("{}: after the last handshake message write/read on the party whose turn it would be and read/write on the other return {:?} (documented: HandshakeAlreadyFinished, HandshakeAlreadyFinished, NotTurnToRead, NotTurnToWrite)", v.name, got)); bad += 1; break;
                    }
                }
                match w.write_message(b"x", &mut buf) { Err(Error::State(_)) => {}, o => { finding("C11", format!("{}: write after the last handshake message returned {:?}", v.name, o)); bad += 1; } }
                match rd.read_message(&[0u8; 48], &mut p) { Err(Error::State(_)) => {}, o => { finding("C11", format!("{}: read after the last handshake message returned {:?}", v.name, o)); bad += 1; } }
            }
        }
        if bad >= 4 { break; }
        // a REJECTED last message finishes nothing: indicators unchanged, conversion refused, the genuine message still accepted
        if let (Ok(mut i2), Ok(mut r2)) = (mk(&v, true, None), mk(&v, false, None)) {
            let mut ok = true;
            for k in 0..nh - 1 { let (w, rd) = if k % 2 == 0 { (&mut i2, &mut r2) } else { (&mut r2, &mut i2) }; match w.write_message(&v.msgs[k].0, &mut buf) { Ok(n) => { if rd.read_message(&buf[..n], &mut p).is_err() { ok = false; break; } }, Err(_) => { ok = false; break; } } }
            if ok {
                let k = nh - 1; let (w, mut rd) = if k % 2 == 0 { (i2, r2) } else { (r2, i2) }; let mut w = w;
                if let Ok(n) = w.write_message(&v.msgs[k].0, &mut buf) {
                    let mut badm = buf[..n].to_vec(); badm[n - 1] ^= 0x10;
                    let r1 = rd.read_message(&badm, &mut p); let r2_ = rd.read_message(&buf[..n], &mut p[..0]);
                    if r1.is_ok() || (r2_.is_ok() && !v.msgs[k].0.is_empty()) { finding("C03", format!("{}: the last handshake message with an altered tag (or read into an empty buffer) is accepted", v.name)); bad += 1; }
                    else if rd.is_handshake_finished() || rd.is_my_turn() { finding("C11", format!("{}: after the last handshake message was REJECTED the reader reports finished={} my_turn={}", v.name, rd.is_handshake_finished(), rd.is_my_turn())); bad += 1; }
                    else {
                        // (conversion consumes the state: test it on this reader, and acceptance of the genuine message on a twin below)
                        if rd.into_transport_mode().is_ok() { finding("C11", format!("{}: into_transport_mode() succeeds although the last handshake message was rejected", v.name)); bad += 1; }
                    }
                }
            }
        }
        // conversion before the end must fail
        if let Ok(h) = mk(&v, true, None) { if h.into_transport_mode().is_ok() { finding("C11", format!("{}: into_transport_mode succeeds before any handshake message", v.name)); bad += 1; } }
    }
    assert_eq!(bad, 0);
}

// recording resolver: logs every AEAD encryption (key, nonce, ad, plaintext) and RNG draw of both endpoints
type Log = Arc<Mutex<Vec<(Vec<u8>, u64, Vec<u8>, Vec<u8>)>>>;
struct RecCipher { inner: Box<dyn Cipher>, key: [u8; 32], log: Log }
impl Cipher for RecCipher {
    fn name(&self) -> &'static str { self.inner.name() }
    fn set(&mut self, key: &[u8; 32]) { self.key = *key; self.inner.set(key) }
    fn encrypt(&self, nonce: u64, ad: &[u8], pt: &[u8], out: &mut [u8]) -> usize {
        self.log.lock().unwrap().push((self.key.to_vec(), nonce, ad.to_vec(), pt.to_vec()));
        self.inner.encrypt(nonce, ad, pt, out)
    }
    fn decrypt(&self, nonce: u64, ad: &[u8], ct: &[u8], out: &mut [u8]) -> Result<usize, Error> { self.inner.decrypt(nonce, ad, ct, out) }
}
struct RecRes { log: Log }
impl CryptoResolver for RecRes {
    fn resolve_rng(&self) -> Option<Box<dyn Random>> { DefaultResolver.resolve_rng() }
    fn resolve_dh(&self, c: &DHChoice) -> Option<Box<dyn Dh>> { DefaultResolver.resolve_dh(c) }
    fn resolve_hash(&self, c: &HashChoice) -> Option<Box<dyn Hash>> { DefaultResolver.resolve_hash(c) }
    fn resolve_cipher(&self, c: &CipherChoice) -> Option<Box<dyn Cipher>> { Some(Box::new(RecCipher { inner: DefaultResolver.resolve_cipher(c)?, key: [0; 32], log: self.log.clone() })) }
}
#[test]
fn C06_no_key_nonce_reuse() {
    let mut bad = 0;
    for v in vectors_small() {
        let log: Log = Arc::new(Mutex::new(vec![]));
        let (mut i, mut r) = match (mk(&v, true, Some(Box::new(RecRes { log: log.clone() }))), mk(&v, false, Some(Box::new(RecRes { log: log.clone() })))) { (Ok(a), Ok(b)) => (a, b), _ => continue };
        let nh = n_handshake_msgs(&v.name);
        let mut buf = vec![0u8; 70000]; let mut p = vec![0u8; 70000];
        let mut okrun = true;
        for k in 0..nh {
            let (w, rd) = if k % 2 == 0 { (&mut i, &mut r) } else { (&mut r, &mut i) };
            inject_faults(k, w, rd, &v);
            inject_read_faults(k, rd, &v, false);
            // retry with a DIFFERENT payload than the failed attempts used
            let payload = [v.msgs[k].0.clone(), vec![0xEE; 3]].concat();
            let n = match w.write_message(&payload, &mut buf) { Ok(n) => n, Err(_) => { okrun = false; break; } };
            if rd.read_message(&buf[..n], &mut p).is_err() { okrun = false; break; }
        }
        let l = log.lock().unwrap();
        'outer: for a in 0..l.len() { for b in a + 1..l.len() {
            if l[a].0 == l[b].0 && l[a].1 == l[b].1 && l[a].0 != vec![0u8; 32] && (l[a].2 != l[b].2 || l[a].3 != l[b].3) {
                finding("C06", format!("{}: key {}.. nonce {} used to encrypt two different inputs (plaintext lengths {} and {}) after failed calls and retries", v.name, hexs(&l[a].0[..4]), l[a].1, l[a].3.len(), l[b].3.len()));
                bad += 1; break 'outer;
            } } }
        let _ = okrun;
        if bad >= 4 { break; }
    }
    assert_eq!(bad, 0);
}

// ------------------------------------------------------------------------------------------------ C10 / C14
#[test]
fn C10_no_panics_any_buffer_size() {
    let mut bad = 0;
    for v in vectors_small() {
        let nh = n_handshake_msgs(&v.name);
        for k in 0..nh {
            let res = catch_unwind(AssertUnwindSafe(|| {
                let (mut i, mut r) = (mk(&v, true, None).unwrap(), mk(&v, false, None).unwrap());
                let mut buf = vec![0u8; 70000]; let mut p = vec![0u8; 70000];
                for j in 0..k { let (w, rd) = if j % 2 == 0 { (&mut i, &mut r) } else { (&mut r, &mut i) }; let n = w.write_message(&v.msgs[j].0, &mut buf).unwrap(); rd.read_message(&buf[..n], &mut p).unwrap(); }
                let (w, rd) = if k % 2 == 0 { (&mut i, &mut r) } else { (&mut r, &mut i) };
                let full = v.msgs[k].1.len();
                for l in 0..full + 40 {
                    let mut small = vec![0u8; l];
                    if let Err(_) = catch_unwind(AssertUnwindSafe(|| { let _ = w.write_message(&v.msgs[k].0, &mut small); })) { return Some(format!("write_message panics with an output buffer of {} bytes", l)); }
                    if !w.is_my_turn() { break; }
                }
                for l in 0..full + 2 {
                    let mut pb = vec![0u8; 100];
                    if let Err(_) = catch_unwind(AssertUnwindSafe(|| { let _ = rd.read_message(&v.msgs[k].1[..l.min(full)], &mut pb[..l.min(100)]); })) { return Some(format!("read_message panics on a {}-byte prefix", l)); }
                    if rd.is_my_turn() { break; }
                }
                None
            }));
            match res { Ok(None) => {}, Ok(Some(s)) => { finding("C10", format!("{} message {}: {}", v.name, k, s)); bad += 1; }, Err(_) => { finding("C10", format!("{} message {}: panic while preparing the session", v.name, k)); bad += 1; } }
            if bad >= 4 { break; }
        }
        if bad >= 4 { break; }
    }
    // builder with keys of any length
    for l in [0usize, 1, 31, 32, 33, 56, 57, 64, 65, 66, 200] {
        let key = vec![3u8; l];
        for name in ["Noise_XK_25519_ChaChaPoly_SHA256", "Noise_KK_25519_AESGCM_SHA512"] {
            let r = catch_unwind(|| { let _ = Builder::new(name.parse().unwrap()).local_private_key(&key).and_then(|b| b.remote_public_key(&key)).and_then(|b| b.build_initiator()); let _ = Builder::new(name.parse().unwrap()).fixed_ephemeral_key_for_testing_only(&key).local_private_key(&[1u8; 32]).and_then(|b| b.remote_public_key(&[2u8; 32])).and_then(|b| b.build_responder()); });
            if r.is_err() { finding("C10", format!("{}: Builder panics with a {}-byte key", name, l)); bad += 1; }
        }
    }
    assert_eq!(bad, 0);
}
#[test]
fn C14_framing() {
    let mut bad = 0;
    for v in vectors_small() {
        let (mut i, mut r) = match (mk(&v, true, None), mk(&v, false, None)) { (Ok(a), Ok(b)) => (a, b), _ => continue };
        let nh = n_handshake_msgs(&v.name);
        let mut buf = vec![0u8; 70000]; let mut p = vec![0u8; 70000];
        for k in 0..nh {
            let (w, rd) = if k % 2 == 0 { (&mut i, &mut r) } else { (&mut r, &mut i) };
            let overhead = v.msgs[k].1.len() - v.msgs[k].0.len();
            // a payload that makes the message one byte too long must be refused, the largest fitting one accepted
            let too_big = vec![1u8; 65535 - overhead + 1];
            match w.write_message(&too_big, &mut buf) { Err(Error::Input) => {}, o => { finding("C14", format!("{} message {}: a {}-byte payload (message would be {} bytes) returned {:?}", v.name, k, too_big.len(), too_big.len() + overhead, o.map(|n| n))); bad += 1; break; } }
            if rd.read_message(&vec![0u8; 65536], &mut p).is_ok() { finding("C14", format!("{} message {}: a 65536-byte message is not refused", v.name, k)); bad += 1; break; }
            let n = match w.write_message(&v.msgs[k].0, &mut buf) { Ok(n) => n, Err(e) => { finding("C14", format!("{} message {}: write failed {:?}", v.name, k, e)); bad += 1; break; } };
            if n != v.msgs[k].1.len() { finding("C14", format!("{} message {}: write returned {} but the specification's length is {}", v.name, k, n, v.msgs[k].1.len())); bad += 1; break; }
            match rd.read_message(&buf[..n], &mut p) { Ok(l) if l == n - overhead => {}, o => { finding("C14", format!("{} message {}: read returned {:?}, expected Ok({})", v.name, k, o, n - overhead)); bad += 1; break; } }
        }
        if bad >= 4 { break; }
    }
    assert_eq!(bad, 0);
}

// ================================================================================================
// Self-contained sessions over ALL 38 patterns x psk placements (no external oracle needed: the properties below
// compare a run with injected failures against the same run without them, or check documented results directly)
// ================================================================================================
include!("vp_table.rs");   // GENERATED from /verif/spec/noise_patterns.txt: TABLE: &[(name, pre_i, pre_r, msgs)]

fn table_entry(pat: &str) -> &'static (&'static str, &'static [&'static str], &'static [&'static str], &'static [&'static [&'static str]]) {
    TABLE.iter().find(|e| e.0 == pat).expect("pattern in table")
}
fn all_names(prims: &[&str]) -> Vec<String> {
    let mut out = vec![];
    for e in TABLE.iter() {
        let n = e.3.len();
        let mut mods: Vec<String> = vec![String::new()];
        for k in 0..=n { mods.push(format!("psk{}", k)); }
        mods.push(format!("psk0+psk{}", n));
        for m in mods { for p in prims { out.push(format!("Noise_{}{}_{}", e.0, m, p)); } }
    }
    out
}
fn base_pattern(name: &str) -> String { name.split('_').nth(1).unwrap().chars().take_while(|c| c.is_ascii_uppercase() || c.is_ascii_digit()).collect() }
fn dh_choice(name: &str) -> DHChoice {
    #[cfg(feature = "use-p256")]
    if name.contains("_P256_") { return DHChoice::P256; }
    let _ = name; DHChoice::Curve25519
}
fn keypair(seed: u8) -> (Vec<u8>, Vec<u8>) { keypair_for("_25519_", seed) }
fn keypair_for(name: &str, seed: u8) -> (Vec<u8>, Vec<u8>) {
    // deterministic key pair through the library's own DH object
    let mut dh = DefaultResolver.resolve_dh(&dh_choice(name)).unwrap();
    let sk: Vec<u8> = (0..32).map(|i| seed.wrapping_mul(31).wrapping_add(i as u8)).collect();
    dh.set(&sk);
    (sk, dh.pubkey().to_vec())
}
struct Cfg { name: String, si: (Vec<u8>, Vec<u8>), sr: (Vec<u8>, Vec<u8>), ei: Vec<u8>, er: Vec<u8>, psk: [u8; 32], prologue: Vec<u8> }
fn cfg(name: &str) -> Cfg { Cfg { name: name.to_string(), si: keypair_for(name, 1), sr: keypair_for(name, 2), ei: keypair_for(name, 3).0, er: keypair_for(name, 4).0, psk: [0x5a; 32], prologue: b"vp probe".to_vec() } }
/// the primitive combinations of a sweep, plus - when the probe is built with those features - the P-256 and XChaChaPoly extensions
fn with_extensions(base: &[&'static str]) -> Vec<&'static str> {
    let mut v = base.to_vec();
    #[cfg(feature = "use-p256")]
    { v.push("P256_ChaChaPoly_SHA256"); v.push("P256_AESGCM_BLAKE2b"); }
    #[cfg(feature = "use-xchacha20poly1305")]
    { v.push("25519_XChaChaPoly_SHA512"); }
    v
}
fn build(c: &Cfg, initiator: bool, res: Option<BoxedCryptoResolver>) -> Result<HandshakeState, Error> {
    let params: NoiseParams = c.name.parse()?;
    let mut b = match res { Some(r) => Builder::with_resolver(params, r), None => Builder::new(params) };
    let e = table_entry(&base_pattern(&c.name));
    let (me, peer, eph) = if initiator { (&c.si, &c.sr, &c.ei) } else { (&c.sr, &c.si, &c.er) };
    b = b.prologue(&c.prologue)?.local_private_key(&me.0)?.fixed_ephemeral_key_for_testing_only(eph);
    let peer_pre = if initiator { e.2 } else { e.1 };
    if peer_pre.contains(&"s") { b = b.remote_public_key(&peer.1)?; }
    for p in psk_positions(&c.name) { b = b.psk(p, &c.psk)?; }
    if initiator { b.build_initiator() } else { b.build_responder() }
}
/// one complete session; returns every handshake message and two transport messages per direction
fn transcript(c: &Cfg, faults: bool) -> Result<Vec<Vec<u8>>, String> {
    let clean_lens: Vec<usize> = if faults { transcript(c, false)?.iter().map(|m| m.len()).collect() } else { vec![] };
    let (mut i, mut r) = (build(c, true, None).map_err(|e| format!("build initiator: {:?}", e))?, build(c, false, None).map_err(|e| format!("build responder: {:?}", e))?);
    let nh = table_entry(&base_pattern(&c.name)).3.len();
    let mut out = vec![]; let mut buf = vec![0u8; 70000]; let mut p = vec![0u8; 70000];
    for k in 0..nh {
        let payload: Vec<u8> = (0..(k * 7 + 3)).map(|x| x as u8).collect();
        let (w, rd) = if k % 2 == 0 { (&mut i, &mut r) } else { (&mut r, &mut i) };
        if faults {
            // failing writes: every undersized buffer, oversize payload; out-of-phase calls; (reader faults below)
            for l in 0..clean_lens[k] { let mut small = vec![0u8; l]; if w.write_message(&payload, &mut small).is_ok() { return Err(format!("message {}: a write into a {}-byte buffer succeeded although the message has {} bytes", k, l, clean_lens[k])); } }
            let big = vec![1u8; 65535]; let _ = w.write_message(&big, &mut buf);
            let _ = w.read_message(&[0u8; 64], &mut p);
        }
        let n = w.write_message(&payload, &mut buf).map_err(|e| format!("write {}: {:?}", k, e))?;
        let msg = buf[..n].to_vec();
        if faults {
            let enc = w.was_write_payload_encrypted();
            let upto = if enc { msg.len() } else { 32.min(msg.len()) };
            for cut in 0..upto { if rd.read_message(&msg[..cut], &mut p).is_ok() { return Err(format!("message {}: a {}-byte truncation was accepted", k, cut)); } }
            if enc { for pos in (0..msg.len()).step_by((msg.len() / 24).max(1)) { let mut m = msg.clone(); m[pos] ^= 1; if rd.read_message(&m, &mut p).is_ok() { return Err(format!("message {}: a bit flip at byte {} was accepted", k, pos)); } } }
            let mut tiny = vec![0u8; payload.len() - 1];
            let _ = rd.read_message(&msg, &mut tiny);
            let _ = rd.write_message(b"zz", &mut buf);
        }
        let l = rd.read_message(&msg, &mut p).map_err(|e| format!("read {}: {:?}", k, e))?;
        if &p[..l] != &payload[..] { return Err(format!("payload {} not intact", k)); }
        out.push(msg);
    }
    if i.get_handshake_hash() != r.get_handshake_hash() { return Err("handshake hashes differ".into()); }
    out.push(i.get_handshake_hash().to_vec());
    let oneway = nh == 1;
    let (mut ti, mut tr) = (i.into_transport_mode().map_err(|e| format!("{:?}", e))?, r.into_transport_mode().map_err(|e| format!("{:?}", e))?);
    for k in 0..4 {
        let i_sends = oneway || k % 2 == 0;
        let (w, rd) = if i_sends { (&mut ti, &mut tr) } else { (&mut tr, &mut ti) };
        let n = w.write_message(&[k as u8; 5], &mut buf).map_err(|e| format!("transport write {}: {:?}", k, e))?;
        let l = rd.read_message(&buf[..n], &mut p).map_err(|e| format!("transport read {}: {:?}", k, e))?;
        if &p[..l] != &[k as u8; 5] { return Err("transport payload not intact".into()); }
        out.push(buf[..n].to_vec());
    }
    Ok(out)
}
#[test]
fn C07_all_patterns_failed_calls_change_nothing() {
    let mut bad = 0;
    for name in all_names(&with_extensions(&["25519_ChaChaPoly_SHA256", "25519_AESGCM_BLAKE2b"])) {
        let c = cfg(&name);
        match (transcript(&c, false), transcript(&c, true)) {
            (Ok(a), Ok(b)) => if a != b { let k = a.iter().zip(b.iter()).position(|(x, y)| x != y).unwrap_or(0); finding("C07", format!("{}: after failed handshake calls (undersized buffers, truncated/bit-flipped messages, out-of-turn calls) element {} of the transcript differs from the failure-free run", name, k)); bad += 1; },
            (Ok(_), Err(e)) => { finding("C07", format!("{}: the session with failed calls and retries does not complete: {}", name, e)); bad += 1; },
            (Err(e), _) => { finding("C02", format!("{}: the failure-free honest session does not complete: {}", name, e)); bad += 1; },
        }
        if bad >= 4 { break; }
    }
    assert_eq!(bad, 0);
}
#[test]
fn C02_all_patterns_complete() {
    let mut bad = 0;
    for name in all_names(&with_extensions(&["25519_ChaChaPoly_BLAKE2s", "25519_AESGCM_SHA512"])) {
        if let Err(e) = transcript(&cfg(&name), false) { finding("C02", format!("{}: honest session fails: {}", name, e)); bad += 1; if bad >= 4 { break; } }
    }
    assert_eq!(bad, 0);
}
#[test]
fn C02_C14_largest_payload_is_accepted() {
    let mut bad = 0;
    for name in all_names(&["25519_ChaChaPoly_SHA256"]) {
        let c = cfg(&name);
        let clean = match transcript(&c, false) { Ok(t) => t, Err(_) => continue };
        let nh = table_entry(&base_pattern(&name)).3.len();
        for k in 0..nh {
            let overhead = clean[k].len() - (k * 7 + 3);
            let (mut i, mut r) = (build(&c, true, None).unwrap(), build(&c, false, None).unwrap());
            let mut buf = vec![0u8; 70000]; let mut p = vec![0u8; 70000];
            for j in 0..k { let payload: Vec<u8> = (0..(j * 7 + 3)).map(|x| x as u8).collect(); let (w, rd) = if j % 2 == 0 { (&mut i, &mut r) } else { (&mut r, &mut i) }; let n = w.write_message(&payload, &mut buf).unwrap(); rd.read_message(&buf[..n], &mut p).unwrap(); }
            let (w, rd) = if k % 2 == 0 { (&mut i, &mut r) } else { (&mut r, &mut i) };
            let max = vec![9u8; 65535 - overhead];
            match w.write_message(&max, &mut buf) {
                Ok(n) if n == 65535 => { if rd.read_message(&buf[..n], &mut p) != Ok(max.len()) { finding("C02", format!("{} message {}: the 65535-byte message is not read back", name, k)); bad += 1; } },
                o => { finding("C02", format!("{} message {}: the largest legal payload ({} bytes, message 65535) returned {:?}", name, k, max.len(), o)); bad += 1; },
            }
            if bad >= 4 { break; }
        }
        if bad >= 4 { break; }
    }
    assert_eq!(bad, 0);
}
#[test]
fn C17_remote_static() {
    let mut bad = 0;
    for name in all_names(&with_extensions(&["25519_ChaChaPoly_SHA256"])) {
        let c = cfg(&name);
        let e = table_entry(&base_pattern(&name));
        let (mut i, mut r) = match (build(&c, true, None), build(&c, false, None)) { (Ok(a), Ok(b)) => (a, b), _ => continue };
        let conveys = |sender_is_init: bool| -> bool { let pre = if sender_is_init { e.1 } else { e.2 }; pre.contains(&"s") || e.3.iter().enumerate().any(|(k, m)| (k % 2 == 0) == sender_is_init && m.contains(&"s")) };
        let mut buf = vec![0u8; 70000]; let mut p = vec![0u8; 70000];
        let mut seen_i = e.2.contains(&"s"); let mut seen_r = e.1.contains(&"s");
        for k in 0..e.3.len() {
            let (w, rd) = if k % 2 == 0 { (&mut i, &mut r) } else { (&mut r, &mut i) };
            let n = w.write_message(b"p", &mut buf).unwrap(); rd.read_message(&buf[..n], &mut p).unwrap();
            if e.3[k].contains(&"s") { if k % 2 == 0 { seen_r = true } else { seen_i = true } }
            for (who, hs, seen, peer) in [("initiator", &i, seen_i, &c.sr.1), ("responder", &r, seen_r, &c.si.1)] {
                match hs.get_remote_static() {
                    Some(k2) if seen && k2 == &peer[..] => {},
                    None if !seen => {},
                    o => { finding("C17", format!("{}: after message {} the {}'s get_remote_static() is {:?} (peer key conveyed so far: {})", name, k, who, o.map(hexs), seen)); bad += 1; }
                }
            }
        }
        let (ri, rr) = (i.get_remote_static().map(|x| x.to_vec()), r.get_remote_static().map(|x| x.to_vec()));
        let c2 = cfg(&name);
        let (mut i2, mut r2) = (build(&c2, true, None).unwrap(), build(&c2, false, None).unwrap());
        for k in 0..e.3.len() { let (w, rd) = if k % 2 == 0 { (&mut i2, &mut r2) } else { (&mut r2, &mut i2) }; let n = w.write_message(b"p", &mut buf).unwrap(); rd.read_message(&buf[..n], &mut p).unwrap(); }
        let (ti, tr) = (i.into_transport_mode().unwrap(), r.into_transport_mode().unwrap());
        let (si, sr) = (i2.into_stateless_transport_mode().unwrap(), r2.into_stateless_transport_mode().unwrap());
        if ti.get_remote_static().map(|x| x.to_vec()) != ri || tr.get_remote_static().map(|x| x.to_vec()) != rr || si.get_remote_static().map(|x| x.to_vec()) != ri || sr.get_remote_static().map(|x| x.to_vec()) != rr {
            finding("C17", format!("{}: get_remote_static() changes across conversion to transport mode", name)); bad += 1;
        }
        if conveys(false) != ri.is_some() || conveys(true) != rr.is_some() { finding("C17", format!("{}: remote static present={:?}/{:?} but the pattern conveys it: {}/{}", name, ri.is_some(), rr.is_some(), conveys(false), conveys(true))); bad += 1; }
        if bad >= 4 { break; }
    }
    assert_eq!(bad, 0);
}
/// seeded change C17-11: a key given to the Builder for a pattern that also TRANSMITS the peer's static key must be replaced
/// by the transmitted (authenticated) key as soon as the message carrying it has been read - in deferred patterns no DH of the
/// same message notices a stale key, so only get_remote_static() shows it
#[test]
fn C17_a_transmitted_static_key_replaces_a_key_given_to_the_builder() {
    let mut bad = 0;
    for name in all_names(&with_extensions(&["25519_ChaChaPoly_SHA256"])) {
        let c = cfg(&name);
        let e = table_entry(&base_pattern(&name));
        let stale = keypair_for(&name, 9).1;
        for pinned_is_init in [true, false] {
            // the pinning party's peer must transmit s (and not pre-share it)
            let peer_pre = if pinned_is_init { e.2 } else { e.1 };
            let carrier = e.3.iter().enumerate().position(|(k, m)| (k % 2 == 0) != pinned_is_init && m.contains(&"s"));
            let carrier = match carrier { Some(k) if !peer_pre.contains(&"s") => k, _ => continue };
            let build_pinned = || -> Result<HandshakeState, Error> {
                let params: NoiseParams = c.name.parse()?;
                let (me, eph) = if pinned_is_init { (&c.si, &c.ei) } else { (&c.sr, &c.er) };
                let mut b = Builder::new(params).prologue(&c.prologue)?.local_private_key(&me.0)?.fixed_ephemeral_key_for_testing_only(eph).remote_public_key(&stale)?;
                for p in psk_positions(&c.name) { b = b.psk(p, &c.psk)?; }
                if pinned_is_init { b.build_initiator() } else { b.build_responder() }
            };
            let (mut i, mut r) = match (if pinned_is_init { build_pinned() } else { build(&c, true, None) }, if pinned_is_init { build(&c, false, None) } else { build_pinned() }) { (Ok(a), Ok(b)) => (a, b), _ => continue };
            let truth = if pinned_is_init { c.sr.1.clone() } else { c.si.1.clone() };
            let mut buf = vec![0u8; 70000]; let mut p = vec![0u8; 70000];
            for k in 0..=carrier {
                let (w, rd) = if k % 2 == 0 { (&mut i, &mut r) } else { (&mut r, &mut i) };
                let n = match w.write_message(b"p", &mut buf) { Ok(n) => n, Err(_) => break };
                if rd.read_message(&buf[..n], &mut p).is_err() { break; }
                if k == carrier {
                    let hs = if pinned_is_init { &i } else { &r };
                    if hs.get_remote_static() != Some(&truth[..]) {
                        finding("C17", format!("{}: the {} was built with remote_public_key({}); message {} carries the peer's static key {} and was read successfully, but get_remote_static() is {:?}", name, if pinned_is_init { "initiator" } else { "responder" }, hexs(&stale), k, hexs(&truth), hs.get_remote_static().map(hexs))); bad += 1;
                    }
                }
            }
            if bad >= 4 { break; }
        }
        if bad >= 4 { break; }
    }
    assert_eq!(bad, 0);
}
/// seeded change C12-11: a set_psk that is REJECTED (wrong key length, slot out of range) installs nothing - the message that
/// needs the PSK still reports MissingPsk (C12: "never replaced by a default"; C07: a failed call is a no-op), and a later
/// valid set_psk makes the session interoperate with a peer that was given the same PSK through its Builder
#[test]
fn C12_C07_a_rejected_set_psk_installs_no_default_psk() {
    let mut bad = 0;
    for name in all_names(&["25519_ChaChaPoly_SHA256"]) {
        let pos = psk_positions(&name);
        if pos.is_empty() { continue; }
        let c = cfg(&name);
        let e = table_entry(&base_pattern(&name));
        for lazy_is_init in [true, false] {
            let build_lazy = || -> Result<HandshakeState, Error> {
                let params: NoiseParams = c.name.parse()?;
                let (me, peer, eph) = if lazy_is_init { (&c.si, &c.sr, &c.ei) } else { (&c.sr, &c.si, &c.er) };
                let mut b = Builder::new(params).prologue(&c.prologue)?.local_private_key(&me.0)?.fixed_ephemeral_key_for_testing_only(eph);
                let peer_pre = if lazy_is_init { e.2 } else { e.1 };
                if peer_pre.contains(&"s") { b = b.remote_public_key(&peer.1)?; }
                if lazy_is_init { b.build_initiator() } else { b.build_responder() }
            };
            let (mut i, mut r) = match (if lazy_is_init { build_lazy() } else { build(&c, true, None) }, if lazy_is_init { build(&c, false, None) } else { build_lazy() }) { (Ok(a), Ok(b)) => (a, b), _ => continue };
            // rejected settings on every slot the pattern uses, then on slots out of range
            {
                let lazy = if lazy_is_init { &mut i } else { &mut r };
                for &p in pos.iter() { for len in [0usize, 1, 16, 31, 33, 64] { if lazy.set_psk(p as usize, &vec![0x5a; len]).is_ok() { finding("C12", format!("{}: set_psk({}, <{} bytes>) is accepted", name, p, len)); bad += 1; } } }
                for p in [10usize, 11, 255, usize::MAX] { if lazy.set_psk(p, &c.psk).is_ok() { finding("C12", format!("{}: set_psk({}, ..) (slot out of range) is accepted", name, p)); bad += 1; } }
            }
            // run the handshake: the first message in which the lazy party processes a psk token must fail with MissingPsk
            let mut buf = vec![0u8; 70000]; let mut p = vec![0u8; 70000];
            let mut reported = false;
            for k in 0..e.3.len() {
                let writer_is_init = k % 2 == 0;
                let (w, rd) = if writer_is_init { (&mut i, &mut r) } else { (&mut r, &mut i) };
                let needs = pos.iter().any(|&q| (q == 0 && k == 0) || (q as usize == k + 1));
                let res_w = w.write_message(b"p", &mut buf);
                if writer_is_init == lazy_is_init {
                    if needs {
                        if res_w != Err(Error::State(snow::error::StateProblem::MissingPsk)) { finding("C12", format!("{}: the {} was built without a PSK and only REJECTED set_psk calls were made on it, yet writing message {} (which needs the PSK) returns {:?} instead of MissingPsk - a default key was used", name, if lazy_is_init { "initiator" } else { "responder" }, k, res_w.as_ref().map(|_| "Ok"))); finding("C07", format!("{}: a rejected set_psk changed the session: message {} no longer reports MissingPsk", name, k)); bad += 1; }
                        reported = true; break;
                    }
                    let n = match res_w { Ok(n) => n, Err(_) => break };
                    if rd.read_message(&buf[..n], &mut p).is_err() { break; }
                } else {
                    let n = match res_w { Ok(n) => n, Err(_) => break };
                    let res_r = rd.read_message(&buf[..n], &mut p);
                    if needs {
                        if res_r != Err(Error::State(snow::error::StateProblem::MissingPsk)) { finding("C12", format!("{}: the {} was built without a PSK and only REJECTED set_psk calls were made on it, yet reading message {} (which needs the PSK) returns {:?} instead of MissingPsk - a default key was used", name, if lazy_is_init { "initiator" } else { "responder" }, k, res_r)); finding("C07", format!("{}: a rejected set_psk changed the session: message {} no longer reports MissingPsk", name, k)); bad += 1; }
                        reported = true; break;
                    }
                    if res_r.is_err() { break; }
                }
            }
            let _ = reported;
            if bad >= 4 { break; }
        }
        if bad >= 4 { break; }
    }
    assert_eq!(bad, 0);
}
#[test]
fn C12_builder_prerequisites() {
    let mut bad = 0;
    for e in TABLE.iter() {
        for initiator in [true, false] {
            let own_pre = if initiator { e.1 } else { e.2 };
            let needs_s = own_pre.contains(&"s") || e.3.iter().enumerate().any(|(k, m)| (k % 2 == 0) == initiator && m.contains(&"s"));
            let needs_rs = (if initiator { e.2 } else { e.1 }).contains(&"s");
            for (give_s, give_rs) in [(false, false), (true, false), (false, true), (true, true)] {
                let name = format!("Noise_{}_25519_ChaChaPoly_SHA256", e.0);
                let mut b = Builder::new(name.parse().unwrap());
                let (sk, pk) = keypair(9);
                if give_s { b = b.local_private_key(&sk).unwrap(); }
                if give_rs { b = b.remote_public_key(&pk).unwrap(); }
                let res = if initiator { b.build_initiator() } else { b.build_responder() };
                let expect_ok = (give_s || !needs_s) && (give_rs || !needs_rs);
                if res.is_ok() != expect_ok { finding("C12", format!("{} {}: local static supplied={} (needed={}), remote static supplied={} (needed={}) -> build returned {:?}", e.0, if initiator { "initiator" } else { "responder" }, give_s, needs_s, give_rs, needs_rs, res.as_ref().map(|_| "Ok").map_err(|e| format!("{:?}", e)))); bad += 1; }
            }
        }
        // modifiers: psk index beyond the message count and `fallback` must be refused at build time
        let n = e.3.len();
        for m in [format!("psk{}", n + 1), "fallback".to_string(), format!("psk0+fallback")] {
            let name = format!("Noise_{}{}_25519_ChaChaPoly_SHA256", e.0, m);
            if let Ok(params) = name.parse::<NoiseParams>() {
                let (sk, pk) = keypair(9); let psk = [1u8; 32];
                let mut b = Builder::new(params).local_private_key(&sk).unwrap().remote_public_key(&pk).unwrap();
                for k in 0..=(n as u8 + 1) { b = b.psk(k, &psk).unwrap(); }
                if b.build_initiator().is_ok() { finding("C12", format!("{}: a modifier that does not fit the pattern / is not implemented is accepted at build time", name)); bad += 1; }
            }
        }
        if bad >= 6 { break; }
    }
    // a psk that was not supplied is an error at the message that needs it
    for name in ["Noise_NNpsk2_25519_ChaChaPoly_SHA256", "Noise_XXpsk3_25519_ChaChaPoly_SHA256", "Noise_NNpsk0_25519_AESGCM_SHA256"] {
        let c = cfg(name);
        let params: NoiseParams = name.parse().unwrap();
        let mut i = Builder::new(params.clone()).local_private_key(&c.si.0).unwrap().build_initiator().unwrap();
        let mut r = Builder::new(params).local_private_key(&c.sr.0).unwrap().build_responder().unwrap();
        let mut buf = vec![0u8; 1000]; let mut p = vec![0u8; 1000];
        let pos = psk_positions(name)[0] as usize;
        let at = if pos == 0 { 0 } else { pos - 1 };
        let mut failed_at = None;
        for k in 0..4 { let (w, rd) = if k % 2 == 0 { (&mut i, &mut r) } else { (&mut r, &mut i) }; match w.write_message(b"", &mut buf) { Ok(n) => { if rd.read_message(&buf[..n], &mut p).is_err() { failed_at = Some(k); break; } }, Err(_) => { failed_at = Some(k); break; } } if w.is_handshake_finished() { break; } }
        if failed_at != Some(at) { finding("C12", format!("{}: with no PSK supplied the handshake fails at message {:?}, expected an error at message {}", name, failed_at, at)); bad += 1; }
    }
    assert_eq!(bad, 0);
}
#[test]
fn C10_parser_never_panics() {
    let mut bad = 0;
    let valid = ["Noise_XX_25519_ChaChaPoly_SHA256", "Noise_NNpsk0+psk2_25519_AESGCM_BLAKE2s", "Noise_X1K1_25519_ChaChaPoly_SHA512", "Noise_N_25519_AESGCM_BLAKE2b"];
    let inserts = ["é", "€", "𝄞", "\u{0}", "_", "+", "psk", "psk999999999999999999999", "ß1", " "];
    let mut cases: Vec<String> = vec![String::new(), "Noise".into(), "_".into(), "____".into(), "Noise__25519_ChaChaPoly_SHA256".into()];
    for v in valid { for pos in 0..=v.len() { if !v.is_char_boundary(pos) { continue; } for ins in inserts { let mut s = v.to_string(); s.insert_str(pos, ins); cases.push(s); }
        if pos < v.len() { let mut s = v.to_string(); s.remove(pos); cases.push(s); let mut s2: Vec<char> = v.chars().collect(); s2[pos] = 'é'; cases.push(s2.into_iter().collect()); } } }
    for s in cases {
        let s2 = s.clone();
        if catch_unwind(move || { let _ = s2.parse::<NoiseParams>(); let _ = s2.parse::<snow::params::HandshakeChoice>(); }).is_err() { finding("C10", format!("parsing the protocol name {:?} panics", s)); bad += 1; if bad >= 4 { break; } }
    }
    assert_eq!(bad, 0);
}


// ---- C13: the protocol-name grammar, written here independently of snow's parser (no str::split / str::parse on the oracle side)
#[derive(Debug, PartialEq, Clone)]
enum OMod { Psk(u8), Fallback }
fn oracle_fields(s: &str, sep: char) -> Vec<String> {
    let mut out = vec![String::new()];
    for c in s.chars() { if c == sep { out.push(String::new()); } else { out.last_mut().unwrap().push(c); } }
    out
}
fn oracle_u8(d: &str) -> Option<u8> {
    // what <u8 as FromStr> accepts: optional '+', one or more ASCII digits, value <= 255
    let d = if let Some(r) = d.strip_prefix('+') { r } else { d };
    if d.is_empty() { return None; }
    let mut v: u32 = 0;
    for c in d.chars() { if !c.is_ascii_digit() { return None; } v = v * 10 + (c as u32 - '0' as u32); if v > 255 { return None; } }
    Some(v as u8)
}
fn oracle_mods(m: &str) -> Option<Vec<OMod>> {
    if m.is_empty() { return Some(vec![]); }
    let mut out = vec![];
    for w in oracle_fields(m, '+') {
        let md = if w == "fallback" { OMod::Fallback } else if let Some(d) = w.strip_prefix("psk") { OMod::Psk(oracle_u8(d)?) } else { return None; };
        if out.contains(&md) { return None; }
        out.push(md);
    }
    Some(out)
}
/// every way to read `s` as Noise_<pattern><modifiers>_<dh>_<cipher>_<hash>
fn oracle_names(s: &str) -> Vec<(String, Vec<OMod>, String, String, String)> {
    let f = oracle_fields(s, '_');
    let mut out = vec![];
    if f.len() != 5 || f[0] != "Noise" { return out; }
    let dhs: &[&str] = if cfg!(feature = "use-p256") { &["25519", "448", "P256"] } else { &["25519", "448"] };
    let cis: &[&str] = if cfg!(feature = "use-xchacha20poly1305") { &["ChaChaPoly", "AESGCM", "XChaChaPoly"] } else { &["ChaChaPoly", "AESGCM"] };
    if !dhs.contains(&f[2].as_str()) || !cis.contains(&f[3].as_str()) || !["SHA256", "SHA512", "BLAKE2s", "BLAKE2b"].contains(&f[4].as_str()) { return out; }
    for e in TABLE.iter() {
        if let Some(rest) = f[1].strip_prefix(e.0) { if let Some(ms) = oracle_mods(rest) { out.push((e.0.to_string(), ms, f[2].clone(), f[3].clone(), f[4].clone())); } }
    }
    out
}
fn c13_check(s: &str, bad: &mut usize) {
    let want = oracle_names(s);
    if want.len() > 1 { finding("C13", format!("oracle: the name {:?} is ambiguous in the grammar: {:?}", s, want)); *bad += 1; return; }
    let s2 = s.to_string();
    let got = match catch_unwind(move || s2.parse::<NoiseParams>()) { Ok(g) => g, Err(_) => { finding("C13", format!("parsing {:?} panics", s)); *bad += 1; return; } };
    match (got, want.first()) {
        (Ok(p), Some(w)) => {
            let mods: Vec<OMod> = p.handshake.modifiers.list.iter().map(|m| match m { HandshakeModifier::Psk(n) => OMod::Psk(*n), HandshakeModifier::Fallback => OMod::Fallback }).collect();
            let dh = match p.dh { DHChoice::Curve25519 => "25519", DHChoice::Curve448 => "448", #[cfg(feature = "use-p256")] DHChoice::P256 => "P256" };
            let ci = match p.cipher { CipherChoice::ChaChaPoly => "ChaChaPoly", CipherChoice::AESGCM => "AESGCM", #[cfg(feature = "use-xchacha20poly1305")] CipherChoice::XChaChaPoly => "XChaChaPoly" };
            let ha = match p.hash { HashChoice::SHA256 => "SHA256", HashChoice::SHA512 => "SHA512", HashChoice::Blake2s => "BLAKE2s", HashChoice::Blake2b => "BLAKE2b" };
            if p.name != s { finding("C13", format!("parsing {:?} does not preserve the name: name = {:?}", s, p.name)); *bad += 1; }
            else if p.handshake.pattern.as_str() != w.0 || mods != w.1 || dh != w.2 || ci != w.3 || ha != w.4 {
                finding("C13", format!("parsing {:?} names ({}, {:?}, {}, {}, {}) but the string spells {:?}", s, p.handshake.pattern.as_str(), mods, dh, ci, ha, w)); *bad += 1; }
        },
        (Ok(p), None) => { finding("C13", format!("{:?} is not a Noise protocol name but is accepted as {:?}", s, p.handshake)); *bad += 1; },
        (Err(e), Some(w)) => { finding("C13", format!("the valid name {:?} = {:?} is rejected with {:?}", s, w, e)); *bad += 1; },
        (Err(_), None) => {},
    }
}
#[test]
fn C13_parser_grammar() {
    let mut bad = 0usize;
    let modlists = ["", "psk0", "psk1", "psk2", "psk3", "psk255", "fallback", "psk0+psk1", "psk1+psk0", "psk0+psk1+psk2", "fallback+psk0", "psk0+fallback",
        "psk0+psk0", "psk1+psk01", "fallback+fallback", "psk01", "psk000", "psk256", "psk", "psk-1", "pskx", "+psk0", "psk0+", "psk0++psk1", "fallbac", "fallbackk", "Psk0", "hfs", "psk0+hfs", "1", "N", "K1", "X",
        "pskpsk0", "pskpskpsk2", "psk0psk1", "psk0+psk3+psk0", "fallback+psk0+fallback", "psk1+psk2+psk01", "psk0+psk1+psk2+psk1", "psk0+psk1+psk2+psk3", "fallbackfallback", "psk1+fallback+psk2", "psk+0", "psk0+psk+1"];
    let mut valid_sample: Vec<String> = vec![];
    // the full product of components
    for e in TABLE.iter() { for m in modlists { for dh in ["25519", "448"] { for ci in ["ChaChaPoly", "AESGCM"] { for ha in ["SHA256", "SHA512", "BLAKE2s", "BLAKE2b"] {
        let s = format!("Noise_{}{}_{}_{}_{}", e.0, m, dh, ci, ha);
        c13_check(&s, &mut bad);
        if bad >= 6 { assert_eq!(bad, 0); }
        if dh == "25519" && ci == "AESGCM" && ha == "BLAKE2s" && (m.is_empty() || m == "psk0+psk1" || m == "fallback") { valid_sample.push(s); }
    } } } } }
    // unsupported component names
    for s in ["Noise_XX_25519_ChaChaPoly_SHA384", "Noise_XX_25519_chachapoly_SHA256", "Noise_XX_P256_ChaChaPoly_SHA256", "Noise_XX_25519_XChaChaPoly_SHA256", "Noise_XX_2551_AESGCM_SHA256", "noise_XX_25519_AESGCM_SHA256",
              "Noise_XY_25519_AESGCM_SHA256", "Noise_XXX_25519_AESGCM_SHA256", "Noise_X1X1X_25519_AESGCM_SHA256", "Noise__25519_AESGCM_SHA256", "Noise_XX_25519_AESGCM", "Noise_XX_25519_AESGCM_SHA256_", "_Noise_XX_25519_AESGCM_SHA256", "", "_", "____", "Noise"] {
        c13_check(s, &mut bad);
    }
    // every single-edit mutation of the sampled valid names
    let alphabet = ['_', '+', 'N', 'X', 'K', 'I', '1', 'p', 'f', '0', '9', 's', 'é', '€', ' ', '\u{0}'];
    for v in &valid_sample {
        let cs: Vec<char> = v.chars().collect();
        for pos in 0..=cs.len() {
            for a in alphabet { let mut t = cs.clone(); t.insert(pos, a); c13_check(&t.iter().collect::<String>(), &mut bad); }
            if pos < cs.len() {
                let mut t = cs.clone(); t.remove(pos); c13_check(&t.iter().collect::<String>(), &mut bad);
                for a in alphabet { let mut t = cs.clone(); t[pos] = a; c13_check(&t.iter().collect::<String>(), &mut bad); }
                let mut t = cs.clone(); t[pos] = if cs[pos].is_ascii_uppercase() { cs[pos].to_ascii_lowercase() } else { cs[pos].to_ascii_uppercase() }; c13_check(&t.iter().collect::<String>(), &mut bad);
                let mut t = cs.clone(); t.insert(pos, cs[pos]); c13_check(&t.iter().collect::<String>(), &mut bad);
                if pos + 1 < cs.len() { let mut t = cs.clone(); t.swap(pos, pos + 1); c13_check(&t.iter().collect::<String>(), &mut bad); }
            }
            if bad >= 6 { assert_eq!(bad, 0); }
        }
        // every substring of up to 9 chars duplicated in place, moved to the end of its section, or deleted
        for start in 0..cs.len() { for len in 2..=9usize { if start + len <= cs.len() {
            let mut t = cs.clone(); for (k, ch) in cs[start..start + len].iter().enumerate() { t.insert(start + len + k, *ch); } c13_check(&t.iter().collect::<String>(), &mut bad);
            let mut t = cs.clone(); t.drain(start..start + len); c13_check(&t.iter().collect::<String>(), &mut bad);
        } } }
    }
    // modifier lists with a repeated element at any distance
    for a in ["psk0", "psk1", "psk3", "fallback", "psk01"] { for b in ["psk2", "fallback", "psk1"] { for c in ["psk0", "psk1", "fallback", "psk001", "psk3"] {
        c13_check(&format!("Noise_XX{}+{}+{}_25519_AESGCM_SHA256", a, b, c), &mut bad); c13_check(&format!("Noise_NK1{}+{}+{}+{}_25519_ChaChaPoly_BLAKE2b", a, b, c, a), &mut bad);
    } } }
    // as_str / from_str round trip on the pattern enum
    for e in TABLE.iter() {
        match e.0.parse::<HandshakePattern>() { Ok(p) => if p.as_str() != e.0 { finding("C13", format!("HandshakePattern {:?} prints as {:?}", e.0, p.as_str())); bad += 1; }, Err(_) => { finding("C13", format!("pattern name {:?} is rejected", e.0)); bad += 1; } }
    }
    assert_eq!(bad, 0);
}

// ================================================================================================ transport phase
fn finished_pair(name: &str) -> (HandshakeState, HandshakeState) {
    let c = cfg(name);
    let (mut i, mut r) = (build(&c, true, None).unwrap(), build(&c, false, None).unwrap());
    let nh = table_entry(&base_pattern(name)).3.len();
    let mut buf = vec![0u8; 2000]; let mut p = vec![0u8; 2000];
    for k in 0..nh { let (w, rd) = if k % 2 == 0 { (&mut i, &mut r) } else { (&mut r, &mut i) }; let n = w.write_message(b"hs", &mut buf).unwrap(); rd.read_message(&buf[..n], &mut p).unwrap(); }
    (i, r)
}
const TNAMES: [&str; 6] = ["Noise_NN_25519_ChaChaPoly_SHA256", "Noise_XX_25519_AESGCM_SHA512", "Noise_N_25519_ChaChaPoly_BLAKE2s", "Noise_IK_25519_AESGCM_BLAKE2b", "Noise_X_25519_AESGCM_SHA256", "Noise_KKpsk2_25519_ChaChaPoly_BLAKE2b"];
fn is_oneway(name: &str) -> bool { table_entry(&base_pattern(name)).3.len() == 1 }

#[test]
fn C05_C09_stateful_delivery_and_nonces() {
    let mut bad = 0;
    for name in TNAMES {
        for resp_sends in [false, true] {
            if resp_sends && is_oneway(name) { continue; }
            let (i, r) = finished_pair(name);
            let (ti, tr) = (i.into_transport_mode().unwrap(), r.into_transport_mode().unwrap());
            let (mut s, mut rcv) = if resp_sends { (tr, ti) } else { (ti, tr) };
            if s.sending_nonce() != 0 || rcv.receiving_nonce() != 0 { finding("C09", format!("{}: nonces do not start at 0", name)); bad += 1; }
            let mut buf = vec![0u8; 70000]; let mut p = vec![0u8; 70000];
            let mut msgs = vec![];
            for k in 0..5u8 { let n = s.write_message(&[k; 9], &mut buf).unwrap(); msgs.push(buf[..n].to_vec()); if s.sending_nonce() != k as u64 + 1 { finding("C09", format!("{}: sending nonce after {} writes is {}", name, k + 1, s.sending_nonce())); bad += 1; } }
            // failed writes do not move the sending nonce
            let before = s.sending_nonce();
            let _ = s.write_message(&[0u8; 10], &mut buf[..20]); let _ = s.write_message(&vec![0u8; 65530], &mut buf); let _ = s.write_message(&vec![0u8; 65520], &mut vec![0u8; 70000]);
            if s.sending_nonce() != before { finding("C07", format!("{}: a failed transport write moved the sending nonce from {} to {}", name, before, s.sending_nonce())); bad += 1; }
            // delivery schedule: 2 (out of order), garbage, short buffer, 0, 0 (duplicate), 1, 3 (skip 2? no: 2 is next), ...
            let mut expect_next = 0u64;
            let schedule: [usize; 12] = [2, 1, 0, 0, 4, 1, 1, 3, 2, 2, 3, 4];
            for (step, &m) in schedule.iter().enumerate() {
                let _ = rcv.read_message(&[0xAAu8; 40], &mut p);                      // garbage
                let _ = rcv.read_message(&msgs[expect_next.min(4) as usize], &mut p[..3]); // genuine next message, payload buffer too small
                let _ = rcv.read_message(&msgs[m][..10], &mut p);                       // truncated
                let mut flipped = msgs[m].clone(); flipped[3] ^= 1; let _ = rcv.read_message(&flipped, &mut p);
                if rcv.receiving_nonce() != expect_next {
                    finding("C05", format!("{}: rejected deliveries moved the receiving nonce to {} (expected {}) at step {}", name, rcv.receiving_nonce(), expect_next, step));
                    // the same observation breaks C09 as stated: the receiving nonce moves only on a successful read (seeded change C09-11)
                    finding("C09", format!("{}: the receiving nonce moved from {} to {} although no read succeeded in between (garbage, undersized payload buffer, truncated and bit-flipped deliveries were all rejected) at step {}", name, expect_next, rcv.receiving_nonce(), step));
                    bad += 1; break;
                }
                let res = rcv.read_message(&msgs[m], &mut p);
                if (m as u64 == expect_next) != res.is_ok() { finding("C05", format!("{}: receiver expecting message {} got message {} and returned {:?}", name, expect_next, m, res)); bad += 1; break; }
                if res.is_ok() { if &p[..9] != &[m as u8; 9] { finding("C04", format!("{}: wrong payload delivered", name)); bad += 1; } expect_next += 1; }
            }
            // explicit receiving nonce, and the reserved value 2^64-1
            rcv.set_receiving_nonce(3);
            if rcv.read_message(&msgs[3], &mut p).is_err() || rcv.receiving_nonce() != 4 { finding("C05", format!("{}: after set_receiving_nonce(3) message 3 is not accepted / nonce not 4", name)); bad += 1; }
            rcv.set_receiving_nonce(u64::MAX);
            let r1 = rcv.read_message(&msgs[0], &mut p);
            if r1 != Err(Error::State(snow::error::StateProblem::Exhausted)) || rcv.receiving_nonce() != u64::MAX { finding("C09", format!("{}: at receiving nonce 2^64-1 read returned {:?} and the nonce is now {}", name, r1, rcv.receiving_nonce())); bad += 1; }
            let r2 = rcv.read_message(&msgs[0], &mut p);
            if r2 != Err(Error::State(snow::error::StateProblem::Exhausted)) || rcv.receiving_nonce() != u64::MAX { finding("C09", format!("{}: second read at 2^64-1 returned {:?}, nonce {}", name, r2, rcv.receiving_nonce())); bad += 1; }
            // counting INTO the reserved value: a genuine message under nonce 2^64-2 (written by a stateless twin of the sender) is
            // accepted, the counter becomes 2^64-1, and from then on every read is refused with Exhausted and the counter stays
            {
                let (i3, r3) = finished_pair(name);
                let (tw, mut tr3) = if resp_sends { (r3.into_stateless_transport_mode().unwrap(), i3.into_transport_mode().unwrap()) } else { (i3.into_stateless_transport_mode().unwrap(), r3.into_transport_mode().unwrap()) };
                let n = tw.write_message(u64::MAX - 1, b"last one", &mut buf).unwrap(); let last = buf[..n].to_vec();
                tr3.set_receiving_nonce(u64::MAX - 1);
                match tr3.read_message(&last, &mut p) { Ok(8) => {}, o => { finding("C09", format!("{}: the message numbered 2^64-2 is not accepted at receiving nonce 2^64-2: {:?}", name, o)); bad += 1; } }
                for m in [&last[..], &[0x33u8; 40][..]] {
                    let r3 = tr3.read_message(m, &mut p);
                    if r3 != Err(Error::State(snow::error::StateProblem::Exhausted)) || tr3.receiving_nonce() != u64::MAX { finding("C09", format!("{}: after the counter has counted up to 2^64-1 a read returns {:?} (nonce now {}) instead of Exhausted: the reserved nonce is used for decryption", name, r3, tr3.receiving_nonce())); bad += 1; break; }
                }
            }
            rcv.set_receiving_nonce(u64::MAX - 1);
            let _ = rcv.read_message(&msgs[0], &mut p);
            if rcv.receiving_nonce() != u64::MAX - 1 { finding("C09", format!("{}: a rejected read at nonce 2^64-2 moved the counter to {}", name, rcv.receiving_nonce())); bad += 1; }
            if s.sending_nonce() != before { finding("C09", format!("{}: set_receiving_nonce / reads on the peer changed nothing here, yet the sending nonce moved", name)); bad += 1; }
            // setting the RECEIVING nonce never touches the sending side of the same endpoint (either endpoint, one-way patterns included)
            let sn0 = s.sending_nonce(); s.set_receiving_nonce(0); s.set_receiving_nonce(u64::MAX); s.set_receiving_nonce(sn0 + 12345);
            if s.sending_nonce() != sn0 { finding("C09", format!("{}: set_receiving_nonce on the sending endpoint moved its SENDING nonce from {} to {}", name, sn0, s.sending_nonce())); bad += 1; }
            match s.write_message(b"still in sequence", &mut buf) { Ok(_) if s.sending_nonce() == sn0 + 1 => {}, o => { finding("C09", format!("{}: after set_receiving_nonce calls on the sender the next write returns {:?} and the sending nonce is {} (expected {})", name, o, s.sending_nonce(), sn0 + 1)); bad += 1; } }
            let sn = rcv.sending_nonce(); rcv.set_receiving_nonce(77); if rcv.sending_nonce() != sn { finding("C09", format!("{}: set_receiving_nonce changed the sending nonce of the same endpoint ({} -> {})", name, sn, rcv.sending_nonce())); bad += 1; }
        }
        if bad >= 4 { break; }
    }
    assert_eq!(bad, 0);
}
#[test]
fn C04_C16_stateless_and_authentication() {
    let mut bad = 0;
    for name in TNAMES {
        let (i, r) = finished_pair(name); let (i2, r2) = finished_pair(name);
        let (si, sr) = (i.into_stateless_transport_mode().unwrap(), r.into_stateless_transport_mode().unwrap());
        let (mut ti, mut tr) = (i2.into_transport_mode().unwrap(), r2.into_transport_mode().unwrap());
        let mut buf = vec![0u8; 70000]; let mut b2 = vec![0u8; 70000]; let mut p = vec![0u8; 70000];
        let nonces = [0u64, 1, 2, 255, 256, 1 << 32, (1 << 32) + 1, u64::MAX - 1, 0x0102030405060708];
        for len in [0usize, 1, 16, 100] {
            for &n in &nonces {
                let payload = vec![len as u8 ^ 0x33; len];
                let l = match si.write_message(n, &payload, &mut buf) { Ok(l) => l, Err(e) => { finding("C16", format!("{}: stateless write under nonce {} ({} bytes) failed {:?}", name, n, len, e)); bad += 1; continue; } };
                if l != len + 16 { finding("C14", format!("{}: stateless write of {} bytes returned {}", name, len, l)); bad += 1; }
                match sr.read_message(n, &buf[..l], &mut p) { Ok(k) if &p[..k] == &payload[..] => {}, o => { finding("C16", format!("{}: message written under nonce {} ({} bytes) is not read back under the same nonce: {:?}", name, n, len, o)); bad += 1; } }
                for &m in &nonces { if m != n && sr.read_message(m, &buf[..l], &mut p).is_ok() { finding("C04", format!("{}: a message written under nonce {:#x} is accepted under nonce {:#x}", name, n, m)); bad += 1; break; } }
                if si.read_message(n, &buf[..l], &mut p).is_ok() { finding("C04", format!("{}: a message reflected to its sender is accepted (nonce {})", name, n)); bad += 1; }
                if l > 0 { let mut t = buf[..l].to_vec(); t[l - 1] ^= 1; if sr.read_message(n, &t, &mut p).is_ok() { finding("C04", format!("{}: modified message accepted", name)); bad += 1; } if sr.read_message(n, &buf[..l - 1], &mut p).is_ok() { finding("C04", format!("{}: truncated message accepted", name)); bad += 1; } }
            }
        }
        // stateless under nonce k == k-th message of the stateful sender
        for k in 0..4u64 { let payload = [k as u8; 7]; let a = ti.write_message(&payload, &mut buf).unwrap(); let b = si.write_message(k, &payload, &mut b2).unwrap(); if buf[..a] != b2[..b] { finding("C16", format!("{}: stateless message under nonce {} differs from the stateful sender's message number {}", name, k, k)); bad += 1; } if tr.read_message(&b2[..b], &mut p).is_err() { finding("C16", format!("{}: stateful receiver rejects the stateless message {}", name, k)); bad += 1; } }
        for b in buf.iter_mut() { *b = 0xA5; }
        if si.write_message(u64::MAX, b"x", &mut buf) != Err(Error::State(snow::error::StateProblem::Exhausted)) { finding("C09", format!("{}: stateless write under nonce 2^64-1 is not refused with Exhausted", name)); bad += 1; }
        if buf.iter().any(|b| *b != 0xA5) { finding("C09", format!("{}: the refused stateless write under the reserved nonce 2^64-1 still produced output (the cipher was run with that nonce)", name)); bad += 1; }
        if sr.read_message(u64::MAX, &[0u8; 32], &mut p) != Err(Error::State(snow::error::StateProblem::Exhausted)) { finding("C09", format!("{}: stateless read under nonce 2^64-1 is not refused with Exhausted", name)); bad += 1; }
        if is_oneway(name) {
            let oneway = || -> Result<usize, Error> { Err(Error::State(snow::error::StateProblem::OneWay)) };
            let got = (sr.write_message(0, b"x", &mut buf), si.read_message(0, &[0u8; 32], &mut p), tr.write_message(b"x", &mut buf), ti.read_message(&[0u8; 32], &mut p));
            if got != (oneway(), oneway(), oneway(), oneway()) { finding("C11", format!("{}: in transport mode of a one-way pattern the responder's write (stateless, stateful) and the initiator's read (stateless, stateful) return {:?}, documented: State(OneWay) for all four", name, got)); bad += 1; }
            if tr.sending_nonce() != 0 || ti.receiving_nonce() != 0 { finding("C11", format!("{}: a refused one-way call moved a nonce", name)); bad += 1; }
        }
        if bad >= 4 { break; }
    }
    assert_eq!(bad, 0);
}
#[test]
fn C15_rekey() {
    let mut bad = 0;
    for name in TNAMES {
        if is_oneway(name) { continue; }
        let (i, r) = finished_pair(name);
        let (mut ti, mut tr) = (i.into_transport_mode().unwrap(), r.into_transport_mode().unwrap());
        let mut buf = vec![0u8; 1000]; let mut p = vec![0u8; 1000];
        let roundtrip = |w: &mut snow::TransportState, rd: &mut snow::TransportState| -> bool { let mut b = vec![0u8; 100]; let mut q = vec![0u8; 100]; let n = w.write_message(b"rk", &mut b).unwrap(); rd.read_message(&b[..n], &mut q).is_ok() };
        if !roundtrip(&mut ti, &mut tr) || !roundtrip(&mut tr, &mut ti) { finding("C02", format!("{}: transport broken before any rekey", name)); bad += 1; continue; }
        let (sn, rn) = (ti.sending_nonce(), tr.receiving_nonce());
        ti.rekey_outgoing(); tr.rekey_incoming();
        if ti.sending_nonce() != sn || tr.receiving_nonce() != rn { finding("C15", format!("{}: rekey changed a nonce", name)); bad += 1; }
        if !roundtrip(&mut ti, &mut tr) { finding("C15", format!("{}: after rekey_outgoing on the sender and rekey_incoming on the receiver the next message is rejected", name)); bad += 1; }
        if !roundtrip(&mut tr, &mut ti) { finding("C15", format!("{}: rekeying the initiator->responder direction disturbed the other direction", name)); bad += 1; }
        tr.rekey_outgoing(); ti.rekey_incoming();
        if !roundtrip(&mut tr, &mut ti) || !roundtrip(&mut ti, &mut tr) { finding("C15", format!("{}: responder-direction rekey breaks sync", name)); bad += 1; }
        // rekeying never moves a counter, not even an exhausted one
        {
            let (i9, r9) = finished_pair(name); let (mut t9, mut u9) = (i9.into_transport_mode().unwrap(), r9.into_transport_mode().unwrap());
            for nv in [u64::MAX, u64::MAX - 1, 7] {
                t9.set_receiving_nonce(nv); u9.set_receiving_nonce(nv);
                t9.rekey_incoming(); t9.rekey_outgoing(); t9.rekey_manually(Some(&[3u8; 32]), Some(&[4u8; 32])); t9.rekey_initiator_manually(&[5u8; 32]); t9.rekey_responder_manually(&[6u8; 32]);
                u9.rekey_incoming(); u9.rekey_manually(Some(&[3u8; 32]), Some(&[4u8; 32]));
                if t9.receiving_nonce() != nv || u9.receiving_nonce() != nv || t9.sending_nonce() != 0 || u9.sending_nonce() != 0 { finding("C15", format!("{}: rekey calls moved a nonce: receiving nonce set to {} is now {} / {}, sending nonces {} / {}", name, nv, t9.receiving_nonce(), u9.receiving_nonce(), t9.sending_nonce(), u9.sending_nonce())); bad += 1; }
            }
        }
        // one-sided rekey must break exactly that direction
        ti.rekey_outgoing();
        let n = ti.write_message(b"x", &mut buf).unwrap();
        if tr.read_message(&buf[..n], &mut p).is_ok() { finding("C15", format!("{}: a message sent after a one-sided rekey is accepted", name)); bad += 1; }
        tr.rekey_incoming();
        if tr.read_message(&buf[..n], &mut p).is_err() { finding("C15", format!("{}: catching up with rekey_incoming does not restore sync (nonce must not have moved on the failed read)", name)); bad += 1; }
        // manual keys: both directions in ONE call, and separately on the peer
        let (k1, k2) = ([0x11u8; 32], [0x22u8; 32]);
        ti.rekey_manually(Some(&k1), Some(&k2));
        tr.rekey_initiator_manually(&k1); tr.rekey_responder_manually(&k2);
        if !roundtrip(&mut ti, &mut tr) || !roundtrip(&mut tr, &mut ti) { finding("C15", format!("{}: rekey_manually(Some, Some) on one side and the two single-direction calls on the other do not agree", name)); bad += 1; }
        ti.rekey_manually(Some(&k2), None);
        if roundtrip(&mut ti, &mut tr) { finding("C15", format!("{}: different manual keys on the two sides still deliver", name)); bad += 1; }
        // stateless mode
        let (i, r) = finished_pair(name);
        let (mut si, mut sr) = (i.into_stateless_transport_mode().unwrap(), r.into_stateless_transport_mode().unwrap());
        si.rekey_outgoing(); sr.rekey_incoming();
        let n = si.write_message(5, b"x", &mut buf).unwrap(); if sr.read_message(5, &buf[..n], &mut p).is_err() { finding("C15", format!("{}: stateless rekey out/in breaks sync", name)); bad += 1; }
        let n = sr.write_message(5, b"x", &mut buf).unwrap(); if si.read_message(5, &buf[..n], &mut p).is_err() { finding("C15", format!("{}: stateless rekey disturbed the other direction", name)); bad += 1; }
        si.rekey_manually(Some(&k1), Some(&k2)); sr.rekey_initiator_manually(&k1); sr.rekey_responder_manually(&k2);
        let n = sr.write_message(6, b"x", &mut buf).unwrap(); if si.read_message(6, &buf[..n], &mut p).is_err() { finding("C15", format!("{}: stateless rekey_manually(Some, Some) does not install the responder key", name)); bad += 1; }
        if bad >= 4 { break; }
    }
    assert_eq!(bad, 0);
}
#[test]
fn C19_no_plaintext_after_rejection() {
    let mut bad = 0;
    for name in TNAMES {
        let secret: Vec<u8> = (0..48u8).map(|x| x.wrapping_mul(7).wrapping_add(0x41)).collect();
        let contains = |hay: &[u8]| hay.windows(16).any(|w| secret.windows(16).any(|s| s == w));
        // transport, stateful + stateless, tag or body altered, several output buffer sizes
        for out_len in [48usize, 56, 64, 65, 200] {
            for alter_tag in [true, false] {
                let (i, r) = finished_pair(name); let (i2, r2) = finished_pair(name);
                let (mut ti, mut tr) = (i.into_transport_mode().unwrap(), r.into_transport_mode().unwrap());
                let (si, sr) = (i2.into_stateless_transport_mode().unwrap(), r2.into_stateless_transport_mode().unwrap());
                let mut buf = vec![0u8; 200];
                let n = ti.write_message(&secret, &mut buf).unwrap();
                let mut m = buf[..n].to_vec(); if alter_tag { m[n - 1] ^= 1 } else { m[5] ^= 1 }
                let mut out = vec![0u8; out_len];
                if tr.read_message(&m, &mut out).is_ok() { finding("C04", format!("{}: altered transport message accepted", name)); bad += 1; }
                if contains(&out) { finding("C19", format!("{}: stateful transport read rejected the message but the {}-byte output buffer holds its plaintext (altered {})", name, out_len, if alter_tag { "tag" } else { "body" })); bad += 1; }
                let n = si.write_message(0, &secret, &mut buf).unwrap();
                let mut m = buf[..n].to_vec(); if alter_tag { m[n - 1] ^= 1 } else { m[5] ^= 1 }
                let mut out = vec![0u8; out_len];
                let _ = sr.read_message(0, &m, &mut out);
                if contains(&out) { finding("C19", format!("{}: stateless read leaks plaintext into a {}-byte buffer", name, out_len)); bad += 1; }
            }
        }
        // handshake payload of the last message (always encrypted)
        let c = cfg(name); let nh = table_entry(&base_pattern(name)).3.len();
        for out_len in [48usize, 64, 200] {
            let (mut i, mut r) = (build(&c, true, None).unwrap(), build(&c, false, None).unwrap());
            let mut buf = vec![0u8; 400]; let mut p = vec![0u8; 400];
            for k in 0..nh - 1 { let (w, rd) = if k % 2 == 0 { (&mut i, &mut r) } else { (&mut r, &mut i) }; let n = w.write_message(b"", &mut buf).unwrap(); rd.read_message(&buf[..n], &mut p).unwrap(); }
            let (w, rd) = if (nh - 1) % 2 == 0 { (&mut i, &mut r) } else { (&mut r, &mut i) };
            let n = w.write_message(&secret, &mut buf).unwrap();
            let mut m = buf[..n].to_vec(); m[n - 1] ^= 1;
            let mut out = vec![0u8; out_len];
            let _ = rd.read_message(&m, &mut out);
            if contains(&out) { finding("C19", format!("{}: handshake read rejected the last message but left its payload in the output buffer ({} bytes)", name, out_len)); bad += 1; }
        }
        if bad >= 4 { break; }
    }
    assert_eq!(bad, 0);
}
struct Partial { rng: bool, dh: bool, hash: bool, cipher: bool }
impl CryptoResolver for Partial {
    fn resolve_rng(&self) -> Option<Box<dyn Random>> { if self.rng { DefaultResolver.resolve_rng() } else { None } }
    fn resolve_dh(&self, c: &DHChoice) -> Option<Box<dyn Dh>> { if self.dh { DefaultResolver.resolve_dh(c) } else { None } }
    fn resolve_hash(&self, c: &HashChoice) -> Option<Box<dyn Hash>> { if self.hash { DefaultResolver.resolve_hash(c) } else { None } }
    fn resolve_cipher(&self, c: &CipherChoice) -> Option<Box<dyn Cipher>> { if self.cipher { DefaultResolver.resolve_cipher(c) } else { None } }
}
#[test]
fn C20_fallback_resolver() {
    let mut bad = 0;
    for kind in 0..4 {
        for (a, b) in [(false, false), (true, false), (false, true), (true, true)] {
            let mk = |on: bool| Partial { rng: kind == 0 && on, dh: kind == 1 && on, hash: kind == 2 && on, cipher: kind == 3 && on };
            let f = FallbackResolver::new(Box::new(mk(a)), Box::new(mk(b)));
            let got = match kind { 0 => f.resolve_rng().is_some(), 1 => f.resolve_dh(&DHChoice::Curve25519).is_some(), 2 => f.resolve_hash(&HashChoice::SHA256).is_some(), _ => f.resolve_cipher(&CipherChoice::ChaChaPoly).is_some() };
            if got != (a || b) { finding("C20", format!("FallbackResolver: primitive kind {} (0 rng, 1 dh, 2 hash, 3 cipher) preferred provides={} fallback provides={} -> resolved={}", kind, a, b, got)); bad += 1; }
        }
    }
    // the same for EVERY primitive name, and the primitive returned is the preferred member's when it has one
    for (a, b) in [(false, false), (true, false), (false, true), (true, true)] {
        let mk = |on: bool| Partial { rng: on, dh: on, hash: on, cipher: on };
        let f = FallbackResolver::new(Box::new(mk(a)), Box::new(mk(b)));
        let mut dhs = vec![DHChoice::Curve25519]; let mut cis = vec![CipherChoice::ChaChaPoly, CipherChoice::AESGCM];
        #[cfg(feature = "use-p256")] dhs.push(DHChoice::P256);
        #[cfg(feature = "use-xchacha20poly1305")] cis.push(CipherChoice::XChaChaPoly);
        for d in &dhs { let (got, want) = (f.resolve_dh(d).map(|x| x.name()), DefaultResolver.resolve_dh(d).map(|x| x.name())); if got.is_some() != (a || b) || (got.is_some() && got != want) { finding("C20", format!("FallbackResolver(preferred provides={}, fallback provides={}).resolve_dh({:?}) = {:?} (the default backend's object is {:?})", a, b, d, got, want)); bad += 1; } }
        for c in &cis { let (got, want) = (f.resolve_cipher(c).map(|x| x.name()), DefaultResolver.resolve_cipher(c).map(|x| x.name())); if got.is_some() != (a || b) || (got.is_some() && got != want) { finding("C20", format!("FallbackResolver(preferred provides={}, fallback provides={}).resolve_cipher({:?}) = {:?} (the default backend's object is {:?})", a, b, c, got, want)); bad += 1; } }
        for h in [HashChoice::SHA256, HashChoice::SHA512, HashChoice::Blake2s, HashChoice::Blake2b] { let (got, want) = (f.resolve_hash(&h).map(|x| x.name()), DefaultResolver.resolve_hash(&h).map(|x| x.name())); if got.is_some() != (a || b) || (got.is_some() && got != want) { finding("C20", format!("FallbackResolver(preferred provides={}, fallback provides={}).resolve_hash({:?}) = {:?} (the default backend's object is {:?})", a, b, h, got, want)); bad += 1; } }
    }
    // sessions through a fallback combination for every hash / cipher: same bytes as the default backend
    for prim in ["25519_ChaChaPoly_BLAKE2b", "25519_AESGCM_BLAKE2s", "25519_ChaChaPoly_SHA512"] {
        let name = format!("Noise_IK_{}", prim); let c = cfg(&name);
        let fb = || -> BoxedCryptoResolver { Box::new(FallbackResolver::new(Box::new(Partial { rng: false, dh: false, hash: true, cipher: true }), Box::new(Partial { rng: true, dh: true, hash: false, cipher: false }))) };
        match (build(&c, true, Some(fb())), build(&c, false, Some(fb())), transcript(&c, false)) {
            (Ok(mut i), Ok(mut r), Ok(clean)) => { let mut buf = vec![0u8; 1000]; let mut p = vec![0u8; 1000];
                for k in 0..2 { let payload: Vec<u8> = (0..(k * 7 + 3)).map(|x| x as u8).collect(); let (w, rd) = if k % 2 == 0 { (&mut i, &mut r) } else { (&mut r, &mut i) };
                    match w.write_message(&payload, &mut buf) { Ok(n) if buf[..n] == clean[k][..] => { if rd.read_message(&buf[..n], &mut p).is_err() { finding("C20", format!("{}: fallback session rejects message {}", name, k)); bad += 1; break; } }, o => { finding("C20", format!("{}: message {} through a FallbackResolver (hash and cipher from the preferred member, rng and dh from the fallback) differs from the default backend's: {:?}", name, k, o.map(|_| "other bytes"))); bad += 1; break; } } } },
            (a, b, _) => { finding("C20", format!("{}: building through a FallbackResolver whose members together provide everything failed: {:?} {:?}", name, a.err(), b.err())); bad += 1; }
        }
    }
    // a session through a fallback combination behaves like the default backend
    let name = "Noise_XX_25519_ChaChaPoly_SHA256"; let c = cfg(name);
    let fb = || -> BoxedCryptoResolver { Box::new(FallbackResolver::new(Box::new(Partial { rng: false, dh: false, hash: false, cipher: true }), Box::new(DefaultResolver))) };
    match (build(&c, true, Some(fb())), build(&c, false, None)) {
        (Ok(mut i), Ok(mut r)) => { let mut buf = vec![0u8; 1000]; let mut p = vec![0u8; 1000]; let clean = transcript(&c, false).unwrap();
            for k in 0..3 { let payload: Vec<u8> = (0..(k * 7 + 3)).map(|x| x as u8).collect(); let (w, rd) = if k % 2 == 0 { (&mut i, &mut r) } else { (&mut r, &mut i) }; let n = w.write_message(&payload, &mut buf).unwrap(); if buf[..n] != clean[k][..] { finding("C20", format!("{}: message {} differs when one endpoint uses a fallback resolver", name, k)); bad += 1; } if rd.read_message(&buf[..n], &mut p).is_err() { finding("C20", format!("{}: mixed-backend session fails at message {}", name, k)); bad += 1; break; } } },
        (a, b) => { finding("C20", format!("{}: building through a FallbackResolver failed: {:?} {:?}", name, a.err(), b.err())); bad += 1; }
    }
    assert_eq!(bad, 0);
}

// ---- ring backend (C18 / C20): only compiled when the probe is built with --features ring-resolver
#[cfg(feature = "ring-resolver")]
#[test]
fn C18_C20_ring_primitives_equal_default() {
    use snow::resolvers::RingResolver;
    let mut bad = 0;
    let (rr, dr) = (RingResolver, DefaultResolver);
    for choice in [CipherChoice::ChaChaPoly, CipherChoice::AESGCM] {
        let (mut a, mut b) = (rr.resolve_cipher(&choice).unwrap(), dr.resolve_cipher(&choice).unwrap());
        let key = [0x42u8; 32]; a.set(&key); b.set(&key);
        for nonce in [0u64, 1, 255, 256, 0x0102030405060708, u64::MAX - 1] {
            for (adl, ptl) in [(0usize, 0usize), (0, 1), (7, 33), (32, 64), (5, 1000)] {
                let ad: Vec<u8> = (0..adl).map(|x| x as u8).collect(); let pt: Vec<u8> = (0..ptl).map(|x| (x * 3 + 1) as u8).collect();
                let (mut oa, mut ob) = (vec![0u8; ptl + 16], vec![0u8; ptl + 16]);
                let (la, lb) = (a.encrypt(nonce, &ad, &pt, &mut oa), b.encrypt(nonce, &ad, &pt, &mut ob));
                if la != lb || oa != ob { finding("C18", format!("{:?}: ring and default backends encrypt differently (nonce {:#x}, ad {} bytes, plaintext {} bytes)", choice, nonce, adl, ptl)); finding("C20", format!("{:?}: ring and default backends encrypt differently (nonce {:#x})", choice, nonce)); bad += 1; continue; }
                // both decrypt each other's output, into exact-size and into large buffers
                for room in [ptl, ptl + 16, ptl + 40] {
                    let (mut da, mut db) = (vec![0x55u8; room], vec![0x55u8; room]);
                    let (ra, rb) = (a.decrypt(nonce, &ad, &ob, &mut da), b.decrypt(nonce, &ad, &oa, &mut db));
                    if ra != Ok(ptl) || rb != Ok(ptl) || da[..ptl] != pt[..] || db[..ptl] != pt[..] { finding("C18", format!("{:?}: ring/default cross-decryption fails (nonce {:#x}, plaintext {} bytes, out {} bytes): {:?} {:?}", choice, nonce, ptl, room, ra, rb)); bad += 1; }
                }
                // only the tag is modified: the would-be plaintext is the real one, it must not be left in the caller's buffer
                if ptl >= 4 { let mut t = oa.clone(); let tl = t.len(); t[tl - 1] ^= 1; let mut d = vec![0x55u8; ptl + 16]; if a.decrypt(nonce, &ad, &t, &mut d).is_ok() { finding("C18", format!("{:?}: ring backend accepts a message with a modified tag", choice)); bad += 1; }
                    if d[..ptl] == pt[..] { finding("C19", format!("{:?}: ring backend leaves the plaintext in the buffer after rejecting the message", choice)); bad += 1; } }
            }
        }
    }
    for choice in [HashChoice::SHA256, HashChoice::SHA512] {
        let (mut a, mut b) = (rr.resolve_hash(&choice).unwrap(), dr.resolve_hash(&choice).unwrap());
        for parts in [vec![0usize], vec![1], vec![3, 0, 61], vec![64, 64, 1], vec![200, 55]] {
            a.reset(); b.reset();
            for (k, l) in parts.iter().enumerate() { let d: Vec<u8> = (0..*l).map(|x| (x + k) as u8).collect(); a.input(&d); b.input(&d); }
            let (mut oa, mut ob) = ([0u8; 64], [0u8; 64]); a.result(&mut oa); b.result(&mut ob);
            if oa != ob { finding("C18", format!("{:?}: ring and default digests differ for input parts {:?}", choice, parts)); bad += 1; }
            let (mut ha, mut hb) = ([0u8; 64], [0u8; 64]); a.hmac(&[7u8; 20], b"data", &mut ha); b.hmac(&[7u8; 20], b"data", &mut hb);
            if ha != hb { finding("C18", format!("{:?}: ring and default HMAC differ", choice)); bad += 1; }
            let (mut x1, mut x2, mut x3, mut y1, mut y2, mut y3) = ([0u8; 64], [0u8; 64], [0u8; 64], [0u8; 64], [0u8; 64], [0u8; 64]);
            a.hkdf(&[1u8; 32], b"ikm", 3, &mut x1, &mut x2, &mut x3); b.hkdf(&[1u8; 32], b"ikm", 3, &mut y1, &mut y2, &mut y3);
            if x1 != y1 || x2 != y2 || x3 != y3 { finding("C18", format!("{:?}: ring and default HKDF differ", choice)); bad += 1; }
        }
    }
    assert_eq!(bad, 0);
}
#[cfg(feature = "ring-resolver")]
#[test]
fn C20_ring_sessions_equal_the_reference_vectors() {
    use snow::resolvers::RingResolver;
    // every cacophony vector both backends support, with ring preferred on the initiator, then on the responder
    let mut bad = 0;
    for v in vectors().into_iter().filter(|v| !v.name.contains("BLAKE") && v.name.contains("_25519_")).step_by(5) {
        for ring_on_initiator in [true, false] {
            let res = || -> BoxedCryptoResolver { Box::new(FallbackResolver::new(Box::new(RingResolver), Box::new(DefaultResolver))) };
            let (mut i, mut r) = match (mk(&v, true, if ring_on_initiator { Some(res()) } else { None }), mk(&v, false, if ring_on_initiator { None } else { Some(res()) })) { (Ok(a), Ok(b)) => (a, b), _ => { finding("C20", format!("{}: build with the ring backend fails", v.name)); bad += 1; continue; } };
            let nh = n_handshake_msgs(&v.name); let mut buf = vec![0u8; 70000]; let mut p = vec![0u8; 70000]; let mut ok = true;
            for k in 0..nh.min(v.msgs.len()) {
                let (payload, expect) = &v.msgs[k]; let (w, rd) = if k % 2 == 0 { (&mut i, &mut r) } else { (&mut r, &mut i) };
                match w.write_message(payload, &mut buf) { Ok(n) if buf[..n] == expect[..] => {}, other => { finding("C20", format!("{}: handshake message {} written with the ring backend on the {} differs from the reference vector ({:?})", v.name, k, if ring_on_initiator { "initiator" } else { "responder" }, other.map(|_| "bytes differ"))); ok = false; break; } }
                if rd.read_message(expect, &mut p).is_err() { finding("C20", format!("{}: mixed ring/default session fails at message {}", v.name, k)); ok = false; break; }
            }
            if !ok { bad += 1; if bad >= 4 { break; } continue; }
            if let Some(h) = &v.hash { if i.get_handshake_hash() != &h[..] { finding("C20", format!("{}: handshake hash differs with the ring backend", v.name)); bad += 1; } }
        }
        if bad >= 4 { break; }
    }
    assert_eq!(bad, 0);
}

// ---- C16: stateless transport shared between threads (compiles only if StatelessTransportState is Sync; results are those of the
// single-threaded run)
#[test]
fn C16_stateless_shared_between_threads() {
    let mut bad = 0;
    for name in ["Noise_NN_25519_ChaChaPoly_SHA256", "Noise_XX_25519_AESGCM_SHA512"] {
        let (i, r) = finished_pair(name);
        let (si, sr) = (i.into_stateless_transport_mode().unwrap(), r.into_stateless_transport_mode().unwrap());
        let expect: Vec<Vec<u8>> = (0..32u64).map(|n| { let mut b = vec![0u8; 100]; let l = si.write_message(n, &[n as u8; 9], &mut b).unwrap(); b.truncate(l); b }).collect();
        let failures = std::sync::atomic::AtomicUsize::new(0);
        std::thread::scope(|sc| {
            for t in 0..4u64 {
                let (si, sr, expect, failures) = (&si, &sr, &expect, &failures);
                sc.spawn(move || {
                    for round in 0..8 { for k in 0..32u64 { let n = (k * 7 + t * 5 + round) % 32;
                        let mut b = vec![0u8; 100]; let mut p = vec![0u8; 100];
                        let l = si.write_message(n, &[n as u8; 9], &mut b).unwrap();
                        if b[..l] != expect[n as usize][..] { failures.fetch_add(1, std::sync::atomic::Ordering::Relaxed); }
                        match sr.read_message(n, &b[..l], &mut p) { Ok(9) if p[..9] == [n as u8; 9] => {}, _ => { failures.fetch_add(1, std::sync::atomic::Ordering::Relaxed); } }
                    } }
                });
            }
        });
        let f = failures.load(std::sync::atomic::Ordering::Relaxed);
        if f > 0 { finding("C16", format!("{}: {} stateless operations gave a different result when the session was shared between 4 threads", name, f)); bad += 1; }
    }
    assert_eq!(bad, 0);
}

// ================================================================================================
// Sweeps that need no knowledge of how the code is organised (safety net under restructured code: when a function
// has been rewritten so that its proof anchors are gone, the deductive check is undecided and these decide whether a
// concrete failing input exists)
// ================================================================================================
fn hs_payload(j: usize) -> Vec<u8> { (0..(j * 5 + 6)).map(|x| (x as u8).wrapping_mul(29).wrapping_add(0x61)).collect() }
/// an unusual but legal DH: X25519 whose shared secret is truncated to 16 bytes (pub_len 32 != dh_len 16)
struct OddDh { inner: Box<dyn Dh> }
impl Dh for OddDh {
    fn name(&self) -> &'static str { self.inner.name() }
    fn pub_len(&self) -> usize { self.inner.pub_len() }
    fn priv_len(&self) -> usize { self.inner.priv_len() }
    fn set(&mut self, k: &[u8]) { self.inner.set(k) }
    fn generate(&mut self, rng: &mut dyn Random) { self.inner.generate(rng) }
    fn pubkey(&self) -> &[u8] { self.inner.pubkey() }
    fn privkey(&self) -> &[u8] { self.inner.privkey() }
    fn dh(&self, pk: &[u8], out: &mut [u8]) -> Result<(), Error> { self.inner.dh(pk, out) }
    fn dh_len(&self) -> usize { 16 }
}
struct OddRes;
impl CryptoResolver for OddRes {
    fn resolve_rng(&self) -> Option<Box<dyn Random>> { DefaultResolver.resolve_rng() }
    fn resolve_dh(&self, c: &DHChoice) -> Option<Box<dyn Dh>> { Some(Box::new(OddDh { inner: DefaultResolver.resolve_dh(c)? })) }
    fn resolve_hash(&self, c: &HashChoice) -> Option<Box<dyn Hash>> { DefaultResolver.resolve_hash(c) }
    fn resolve_cipher(&self, c: &CipherChoice) -> Option<Box<dyn Cipher>> { DefaultResolver.resolve_cipher(c) }
}
fn resolver(odd: bool) -> Option<BoxedCryptoResolver> { if odd { Some(Box::new(OddRes)) } else { None } }
/// the honest session of `c` up to (not including) message k
fn upto(c: &Cfg, k: usize, odd: bool) -> (HandshakeState, HandshakeState) {
    let (mut i, mut r) = (build(c, true, resolver(odd)).unwrap(), build(c, false, resolver(odd)).unwrap());
    let mut buf = vec![0u8; 2000]; let mut p = vec![0u8; 2000];
    for j in 0..k { let (w, rd) = if j % 2 == 0 { (&mut i, &mut r) } else { (&mut r, &mut i) }; let n = w.write_message(&hs_payload(j), &mut buf).unwrap(); rd.read_message(&buf[..n], &mut p).unwrap(); }
    (i, r)
}
/// continue the handshake honestly from message `from`; true iff some call fails before both sides are finished
fn rest_detects(i: &mut HandshakeState, r: &mut HandshakeState, from: usize, nh: usize) -> bool {
    let mut buf = vec![0u8; 2000]; let mut p = vec![0u8; 2000];
    for j in from..nh {
        let (w, rd) = if j % 2 == 0 { (&mut *i, &mut *r) } else { (&mut *r, &mut *i) };
        let n = match w.write_message(&hs_payload(j), &mut buf) { Ok(n) => n, Err(_) => return true };
        if rd.read_message(&buf[..n], &mut p).is_err() { return true; }
    }
    false
}
const SWEEP_NAMES: [&str; 12] = ["Noise_NN_25519_ChaChaPoly_SHA256", "Noise_XX_25519_ChaChaPoly_SHA256", "Noise_IK_25519_ChaChaPoly_SHA256", "Noise_NK_25519_ChaChaPoly_SHA256",
    "Noise_KK_25519_ChaChaPoly_SHA256", "Noise_X_25519_ChaChaPoly_SHA256", "Noise_IX_25519_ChaChaPoly_SHA256", "Noise_XK1_25519_ChaChaPoly_SHA256",
    "Noise_XXpsk3_25519_ChaChaPoly_SHA256", "Noise_NNpsk0_25519_ChaChaPoly_SHA256", "Noise_KNpsk2_25519_AESGCM_SHA512", "Noise_XX_25519_AESGCM_BLAKE2b"];
#[test]
fn C03_every_single_bit_truncation_and_extension_of_every_handshake_message() {
    let mut bad = 0;
    for name in SWEEP_NAMES {
        let c = cfg(name); let nh = table_entry(&base_pattern(name)).3.len();
        for k in 0..nh {
            let arm = || -> (HandshakeState, HandshakeState, Vec<u8>) {
                let (mut i, mut r) = upto(&c, k, false); let mut buf = vec![0u8; 2000];
                let n = if k % 2 == 0 { i.write_message(&hs_payload(k), &mut buf).unwrap() } else { r.write_message(&hs_payload(k), &mut buf).unwrap() };
                (i, r, buf[..n].to_vec())
            };
            let (mut i, mut r, msg) = arm();
            let mut alterations: Vec<(String, Vec<u8>)> = vec![];
            for bit in 0..msg.len() * 8 { let mut m = msg.clone(); m[bit / 8] ^= 1 << (bit % 8); alterations.push((format!("bit {} of byte {} flipped", bit % 8, bit / 8), m)); }
            for cut in 0..msg.len() { alterations.push((format!("truncated to {} bytes", cut), msg[..cut].to_vec())); }
            for ext in [1usize, 2, 16, 17] { let mut m = msg.clone(); m.extend(std::iter::repeat(0u8).take(ext)); alterations.push((format!("extended by {} zero bytes", ext), m)); }
            let mut p = vec![0u8; 2000];
            for (what, m) in alterations {
                // a rejected read changes nothing (C07), so the armed reader is reused until it accepts something
                let accepted = if k % 2 == 0 { r.read_message(&m, &mut p).is_ok() } else { i.read_message(&m, &mut p).is_ok() };
                if accepted {
                    if !rest_detects(&mut i, &mut r, k + 1, nh) { finding("C03", format!("{}: handshake message {} ({} bytes) with {} is accepted and both parties finish the handshake without any error", name, k, msg.len(), what)); bad += 1; }
                    let a = arm(); i = a.0; r = a.1;
                    if a.2 != msg { finding("C02", format!("{}: the same configuration produced a different message {} on a second run", name, k)); bad += 1; }
                }
                if bad >= 4 { break; }
            }
            if bad >= 4 { break; }
        }
        if bad >= 4 { break; }
    }
    assert_eq!(bad, 0);
}
/// does a cipher key exist when token `tok_idx` of message k is processed (i.e. is that field encrypted)?
fn keyed_at(name: &str, k: usize, tok: &str) -> bool {
    let e = table_entry(&base_pattern(name));
    let psk0 = name.contains("psk0"); let mut keyed = false;
    for (j, m) in e.3.iter().enumerate() {
        if psk_positions(name).contains(&(0u8)) && j == 0 && psk0 { keyed = true; }
        for t in m.iter() {
            if j == k && *t == tok { return keyed; }
            if ["ee", "es", "se", "ss"].contains(t) { keyed = true; }
            if *t == "e" && !psk_positions(name).is_empty() { keyed = true; }
        }
        if psk_positions(name).contains(&((j + 1) as u8)) { keyed = true; }
    }
    keyed
}
#[test]
fn C17_C19_rejected_handshake_messages_reveal_and_install_nothing() {
    let mut bad = 0;
    let secret: Vec<u8> = (0..48u8).map(|x| x.wrapping_mul(11).wrapping_add(0x30)).collect();
    for odd in [false, true] {
        for (e, prim) in TABLE.iter().flat_map(|e| with_extensions(&["25519_ChaChaPoly_SHA256"]).into_iter().map(move |p| (e, p))) {
            if odd && !prim.starts_with("25519") { continue; }
            let name = format!("Noise_{}_{}", e.0, prim); let c = cfg(&name); let nh = e.3.len(); let pl = c.si.1.len();
            for k in 0..nh {
                if !e.3[k].contains(&"s") { continue; }
                let (mut i, mut r) = upto(&c, k, odd);
                let (w, rd, sender_pub) = if k % 2 == 0 { (&mut i, &mut r, &c.si.1) } else { (&mut r, &mut i, &c.sr.1) };
                let mut buf = vec![0u8; 2000];
                let n = w.write_message(&secret, &mut buf).unwrap(); let msg = buf[..n].to_vec();
                let s_encrypted = keyed_at(&name, k, "s");
                let s_off = if e.3[k].contains(&"e") { pl } else { 0 };
                let payload_encrypted = w.was_write_payload_encrypted();
                let mut alts: Vec<(String, Vec<u8>)> = vec![];
                for pos in [n - 1, n - 17, s_off, s_off + pl - 1, s_off + pl, s_off + pl + 15, n - secret.len() - 16, 0] { if pos < n { let mut m = msg.clone(); m[pos] ^= 0x20; alts.push((format!("byte {} altered", pos), m)); } }
                for cut in [n - 1, n - 16, n - 17, s_off + pl + 16, s_off + pl + 8, s_off + pl, s_off + 8] { if cut < n { alts.push((format!("truncated to {} bytes", cut), msg[..cut].to_vec())); } }
                let mut moved_on = false;
                for out_len in [secret.len(), 64usize, 100, 400] {
                    if moved_on { break; }
                    for (what, m) in alts.iter() {
                        let before = rd.get_remote_static().map(|x| x.to_vec());
                        let mut p = vec![0xEEu8; out_len];
                        if rd.read_message(m, &mut p).is_ok() { moved_on = true; break; }      // (an unauthenticated field was altered: the reader has legitimately moved on)
                        let after = rd.get_remote_static().map(|x| x.to_vec());
                        if after != before && after.as_deref() != Some(&sender_pub[..]) {
                            finding("C17", format!("{}{}: after the REJECTED message {} ({}) get_remote_static() is {:?}; before the call it was {:?}; the peer's true key is {}", name, if odd { " (DH with a 16-byte shared secret)" } else { "" }, k, what, after.as_deref().map(hexs), before.as_deref().map(hexs), hexs(sender_pub))); bad += 1;
                        }
                        if s_encrypted && p.windows(8).any(|w8| sender_pub.windows(8).any(|s8| s8 == w8)) {
                            finding("C19", format!("{}{}: message {} ({}) is rejected but the {}-byte payload buffer holds (part of) the decrypted static key of the sender", name, if odd { " (DH with a 16-byte shared secret)" } else { "" }, k, what, out_len)); bad += 1;
                        }
                        if payload_encrypted && p.windows(12).any(|w12| secret.windows(12).any(|s12| s12 == w12)) {
                            finding("C19", format!("{}: message {} ({}) is rejected but the {}-byte payload buffer holds its decrypted payload", name, k, what, out_len)); bad += 1;
                        }
                        if bad >= 4 { break; }
                    }
                    if bad >= 4 { break; }
                }
                if moved_on { continue; }
                // the genuine message is still accepted afterwards and conveys the key
                let mut p = vec![0u8; 400];
                match rd.read_message(&msg, &mut p) { Ok(l) if p[..l] == secret[..] => {}, o => { finding("C07", format!("{}: after rejected deliveries the genuine message {} returns {:?}", name, k, o)); bad += 1; } }
                if rd.get_remote_static() != Some(&sender_pub[..]) { finding("C17", format!("{}{}: after message {} (which carries s) get_remote_static() is {:?}", name, if odd { " (DH with a 16-byte shared secret)" } else { "" }, k, rd.get_remote_static().map(hexs))); bad += 1; }
                if bad >= 4 { break; }
            }
            if bad >= 4 { break; }
        }
        // complete sessions with the unusual DH (both sides): every pattern still completes and delivers
        if odd {
            for e in TABLE.iter() {
                let name = format!("Noise_{}_25519_AESGCM_SHA256", e.0); let c = cfg(&name);
                let (mut i, mut r) = upto(&c, 0, true);
                if rest_detects(&mut i, &mut r, 0, e.3.len()) || i.get_handshake_hash() != r.get_handshake_hash() { finding("C02", format!("{}: with a DH whose shared secret is 16 bytes (dh_len != pub_len) the honest session fails", name)); bad += 1; }
            }
        }
    }
    assert_eq!(bad, 0);
}
#[test]
fn C08_set_psk_replaces_the_builder_psk() {
    let mut bad = 0;
    let (ka, kb) = ([0xA1u8; 32], [0xB2u8; 32]);
    for name in ["Noise_NNpsk0_25519_ChaChaPoly_SHA256", "Noise_NNpsk2_25519_ChaChaPoly_SHA256", "Noise_XXpsk3_25519_AESGCM_SHA256", "Noise_IKpsk1_25519_ChaChaPoly_BLAKE2s", "Noise_Npsk0_25519_ChaChaPoly_SHA256", "Noise_XKpsk0+psk3_25519_ChaChaPoly_SHA256"] {
        let nh = table_entry(&base_pattern(name)).3.len();
        let run = |ki: [u8; 32], set_i: Option<[u8; 32]>, kr: [u8; 32], set_r: Option<[u8; 32]>| -> Result<Vec<u8>, String> {
            let mut ci = cfg(name); ci.psk = ki; let mut cr = cfg(name); cr.psk = kr;
            let (mut i, mut r) = (build(&ci, true, None).map_err(|e| format!("{:?}", e))?, build(&cr, false, None).map_err(|e| format!("{:?}", e))?);
            for p in psk_positions(name) { if let Some(k) = set_i { i.set_psk(p as usize, &k).map_err(|e| format!("set_psk {:?}", e))?; } if let Some(k) = set_r { r.set_psk(p as usize, &k).map_err(|e| format!("set_psk {:?}", e))?; } }
            let mut buf = vec![0u8; 2000]; let mut p = vec![0u8; 2000]; let mut all = vec![];
            for j in 0..nh { let (w, rd) = if j % 2 == 0 { (&mut i, &mut r) } else { (&mut r, &mut i) }; let n = w.write_message(&hs_payload(j), &mut buf).map_err(|e| format!("write {} {:?}", j, e))?; rd.read_message(&buf[..n], &mut p).map_err(|e| format!("read {} {:?}", j, e))?; all.extend_from_slice(&buf[..n]); }
            all.extend_from_slice(i.get_handshake_hash()); Ok(all)
        };
        let reference = run(kb, None, kb, None);
        if reference.is_err() { finding("C02", format!("{}: honest psk session fails: {:?}", name, reference)); bad += 1; continue; }
        for (what, got) in [("initiator built with psk A then set_psk(B), responder built with B", run(ka, Some(kb), kb, None)), ("both built with A, both set_psk(B)", run(ka, Some(kb), ka, Some(kb))), ("responder built with A then set_psk(B)", run(kb, None, ka, Some(kb)))] {
            if got != reference { finding("C08", format!("{}: {}: the transcript is not the one of a session keyed with B from the start ({})", name, what, match &got { Ok(_) => "different bytes".to_string(), Err(e) => e.clone() })); bad += 1; }
        }
        for (what, got) in [("initiator set_psk(B) over A, responder keeps A", run(ka, Some(kb), ka, None)), ("psk A against psk B", run(ka, None, kb, None)), ("both built with B, responder set_psk(A)", run(kb, None, kb, Some(ka)))] {
            if got.is_ok() { finding("C08", format!("{}: {}: the two parties hold different PSKs, yet the handshake completes", name, what)); bad += 1; }
        }
    }
    assert_eq!(bad, 0);
}
#[test]
fn C10_transport_setters_and_conversions_never_panic() {
    let mut bad = 0;
    let mut check = |what: String, f: &mut dyn FnMut()| { if catch_unwind(AssertUnwindSafe(|| f())).is_err() { finding("C10", format!("{} panics", what)); bad += 1; } };
    for name in ["Noise_XX_25519_ChaChaPoly_SHA256", "Noise_N_25519_AESGCM_SHA512", "Noise_NNpsk2_25519_AESGCM_BLAKE2s"] {
        let (i, r) = finished_pair(name); let (i2, r2) = finished_pair(name);
        let (mut ti, mut tr) = (i.into_transport_mode().unwrap(), r.into_transport_mode().unwrap());
        let (si, sr) = (i2.into_stateless_transport_mode().unwrap(), r2.into_stateless_transport_mode().unwrap());
        let mut good = vec![0u8; 100]; let gl = si.write_message(7, b"0123456789abcdefXYZ", &mut good).unwrap(); good.truncate(gl);
        for plen in [0usize, 1, 15, 16, 17, 40] {
            let payload = vec![0x5Au8; plen];
            for olen in (0..70).chain([plen + 15, plen + 16, plen + 17]) {
                let mut out = vec![0u8; olen];
                check(format!("{}: TransportState::write_message({} bytes, {}-byte buffer)", name, plen, olen), &mut || { let _ = ti.write_message(&payload, &mut out); });
                let mut out = vec![0u8; olen];
                check(format!("{}: StatelessTransportState::write_message({} bytes, {}-byte buffer)", name, plen, olen), &mut || { let _ = si.write_message(3, &payload, &mut out); });
                let mut out = vec![0u8; olen];
                check(format!("{}: TransportState::read_message({}-byte message, {}-byte buffer)", name, plen, olen), &mut || { let _ = tr.read_message(&payload, &mut out); });
                let mut out = vec![0u8; olen];
                check(format!("{}: StatelessTransportState::read_message({}-byte message, {}-byte buffer)", name, plen, olen), &mut || { let _ = sr.read_message(3, &payload, &mut out); let _ = sr.read_message(7, &good[..good.len().min(olen)], &mut out); });
                let mut out = vec![0u8; olen];
                check(format!("{}: StatelessTransportState::read_message(genuine {}-byte message, {}-byte buffer)", name, good.len(), olen), &mut || { let _ = sr.read_message(7, &good, &mut out); });
            }
        }
        let big = vec![1u8; 70000];
        for plen in [65519usize, 65520, 65535, 65536, 70000] { for olen in [0usize, 16, 65535, 65536, 70000] {
            let mut out = vec![0u8; olen];
            check(format!("{}: transport write of {} bytes into {} bytes", name, plen, olen), &mut || { let _ = ti.write_message(&big[..plen], &mut out); let _ = si.write_message(1, &big[..plen], &mut out); let _ = tr.read_message(&big[..plen], &mut out); let _ = sr.read_message(1, &big[..plen], &mut out); });
        } }
        check(format!("{}: nonce setters / getters / rekey", name), &mut || { tr.set_receiving_nonce(u64::MAX); let _ = tr.receiving_nonce(); let _ = tr.sending_nonce(); tr.rekey_incoming(); tr.rekey_outgoing(); tr.rekey_manually(None, None); let _ = tr.get_remote_static(); let _ = tr.is_initiator(); let mut o = [0u8; 64]; let _ = tr.read_message(&[0u8; 40], &mut o); let _ = tr.write_message(b"x", &mut o); });
        // handshake-phase: set_psk with any position / length, conversions and getters at any time
        let c = cfg(name); let nh = table_entry(&base_pattern(name)).3.len();
        for k in 0..=nh {
            for loc in [0usize, 1, 2, 3, 4, 9, 10, 11, 255, usize::MAX] { for len in [0usize, 1, 31, 32, 33, 64] {
                let (mut i, _r) = upto(&c, k.min(nh), false); let key = vec![9u8; len];
                check(format!("{}: set_psk({}, {} bytes) after {} messages", name, loc, len, k), &mut || { let _ = i.set_psk(loc, &key); });
            } }
            let (i, r) = upto(&c, k, false);
            check(format!("{}: getters after {} messages", name, k), &mut || { let _ = i.get_remote_static(); let _ = i.get_handshake_hash(); let _ = i.is_my_turn(); let _ = i.is_handshake_finished(); let _ = i.was_write_payload_encrypted(); let _ = r.is_initiator(); });
            let mut hs = Some((i, r));
            check(format!("{}: into_transport_mode / into_stateless_transport_mode after {} of {} messages", name, k, nh), &mut || { let (i, r) = hs.take().unwrap(); let _ = i.into_transport_mode(); let _ = r.into_stateless_transport_mode(); });
        }
    }
    assert_eq!(bad, 0);
}

#[test]
fn C14_C16_largest_transport_messages() {
    let mut bad = 0;
    for name in TNAMES {
        let (i, r) = finished_pair(name); let (i2, r2) = finished_pair(name);
        let (mut ti, mut tr) = (i.into_transport_mode().unwrap(), r.into_transport_mode().unwrap());
        let (si, sr) = (i2.into_stateless_transport_mode().unwrap(), r2.into_stateless_transport_mode().unwrap());
        let mut buf = vec![0u8; 70000]; let mut b2 = vec![0u8; 70000]; let mut p = vec![0u8; 70000];
        for plen in [65503usize, 65504, 65518, 65519] {
            let payload = vec![(plen % 251) as u8; plen];
            match (ti.write_message(&payload, &mut buf), si.write_message(0, &payload, &mut b2)) {
                (Ok(a), Ok(b)) if a == plen + 16 && b == plen + 16 => {
                    match sr.read_message(0, &b2[..b], &mut p) { Ok(l) if l == plen && p[..l] == payload[..] => {}, o => { finding("C16", format!("{}: a {}-byte payload ({}-byte message, within the 65535 limit) written in stateless mode is not read back: {:?}", name, plen, b, o.map(|_| "wrong payload"))); bad += 1; } }
                    match tr.read_message(&buf[..a], &mut p) { Ok(l) if l == plen && p[..l] == payload[..] => {}, o => { finding("C14", format!("{}: a {}-byte payload ({}-byte message, within the 65535 limit) is not read back by the stateful receiver: {:?}", name, plen, a, o.map(|_| "wrong payload"))); bad += 1; } }
                },
                o => { finding("C14", format!("{}: writing a {}-byte transport payload (message of {} bytes <= 65535) returned {:?}", name, plen, plen + 16, o)); bad += 1; }
            }
            ti = { let (i, _) = finished_pair(name); i.into_transport_mode().unwrap() }; tr = { let (_, r) = finished_pair(name); r.into_transport_mode().unwrap() };
        }
        for plen in [65520usize, 65535, 65536] {
            let payload = vec![1u8; plen];
            if ti.write_message(&payload, &mut buf) != Err(Error::Input) || si.write_message(0, &payload, &mut b2) != Err(Error::Input) { finding("C14", format!("{}: a {}-byte transport payload (message would exceed 65535) is not refused with Input", name, plen)); bad += 1; }
        }
        if tr.read_message(&vec![0u8; 65536], &mut p).is_ok() || sr.read_message(0, &vec![0u8; 65536], &mut p).is_ok() { finding("C14", format!("{}: a 65536-byte transport message is not refused", name)); bad += 1; }
        if bad >= 4 { break; }
    }
    assert_eq!(bad, 0);
}

#[test]
fn C17_failing_calls_never_change_the_reported_remote_static() {
    let mut bad = 0;
    for e in TABLE.iter() {
        for suffix in ["", "psk0", "psk2"] {
            let nh = e.3.len(); if suffix == "psk2" && nh < 2 { continue; }
          for prim in with_extensions(&["25519_ChaChaPoly_SHA256"]) {
            let name = format!("Noise_{}{}_{}", e.0, suffix, prim); let c = cfg(&name);
            let (mut i, mut r) = upto(&c, 0, false);
            let mut buf = vec![0u8; 2000]; let mut p = vec![0u8; 2000];
            for k in 0..=nh {
                // failing calls of every kind on both parties; the reported key must not move
                for (who, hs) in [("initiator", &mut i), ("responder", &mut r)] {
                    let before = hs.get_remote_static().map(|x| x.to_vec());
                    let _ = hs.write_message(&[7u8; 10], &mut buf[..1]); let _ = hs.write_message(&vec![0u8; 65535], &mut vec![0u8; 70000]);
                    let _ = hs.read_message(&[0u8; 3], &mut p); let _ = hs.read_message(&vec![0u8; 65536], &mut p);
                    let after = hs.get_remote_static().map(|x| x.to_vec());
                    let peer = if who == "initiator" { &c.sr.1 } else { &c.si.1 };
                    if after != before && after.as_deref() != Some(&peer[..]) { finding("C17", format!("{}: before message {} failing calls (undersized / oversize write, short / oversize read) changed the {}'s get_remote_static() from {:?} to {:?}", name, k, who, before.as_deref().map(hexs), after.as_deref().map(hexs))); bad += 1; }
                }
                if k == nh { break; }
                let (w, rd) = if k % 2 == 0 { (&mut i, &mut r) } else { (&mut r, &mut i) };
                let n = match w.write_message(&hs_payload(k), &mut buf) { Ok(n) => n, Err(e2) => { finding("C07", format!("{}: after failing calls the write of message {} returns {:?}", name, k, e2)); bad += 1; break; } };
                if let Err(e2) = rd.read_message(&buf[..n], &mut p) { finding("C07", format!("{}: after failing calls the genuine message {} is rejected with {:?}", name, k, e2)); bad += 1; break; }
            }
          }
            if bad >= 4 { break; }
        }
        if bad >= 4 { break; }
    }
    assert_eq!(bad, 0);
}
#[test]
fn C08_psk_is_bound_even_across_failed_calls_and_retries() {
    let mut bad = 0;
    let (ka, kb, kz) = ([0xA1u8; 32], [0xB2u8; 32], [0u8; 32]);
    for name in ["Noise_NNpsk0_25519_ChaChaPoly_SHA256", "Noise_NNpsk2_25519_ChaChaPoly_SHA256", "Noise_XXpsk3_25519_AESGCM_SHA256", "Noise_IKpsk1_25519_ChaChaPoly_BLAKE2s", "Noise_Npsk0_25519_ChaChaPoly_SHA256", "Noise_KKpsk0_25519_AESGCM_SHA512", "Noise_XXpsk0+psk3_25519_ChaChaPoly_SHA256"] {
        let nh = table_entry(&base_pattern(name)).3.len();
        // every write is first attempted into a buffer that is too small, every read is first attempted on a corrupted copy and
        // (when it fails) retried `retries` times with the genuine bytes
        let run = |ki: [u8; 32], kr: [u8; 32], retries: usize| -> Result<Vec<u8>, String> {
            let mut ci = cfg(name); ci.psk = ki; let mut cr = cfg(name); cr.psk = kr;
            let (mut i, mut r) = (build(&ci, true, None).map_err(|e| format!("{:?}", e))?, build(&cr, false, None).map_err(|e| format!("{:?}", e))?);
            let mut buf = vec![0u8; 2000]; let mut p = vec![0u8; 2000]; let mut all = vec![];
            for j in 0..nh {
                let (w, rd) = if j % 2 == 0 { (&mut i, &mut r) } else { (&mut r, &mut i) };
                for small in [0usize, 1, 33] { let _ = w.write_message(&hs_payload(j), &mut buf[..small]); }
                let n = w.write_message(&hs_payload(j), &mut buf).map_err(|e| format!("write {} {:?}", j, e))?;
                let mut bad_copy = buf[..n].to_vec(); bad_copy[n - 1] ^= 4; let _ = rd.read_message(&bad_copy, &mut p);
                let mut res = rd.read_message(&buf[..n], &mut p);
                for _ in 0..retries { if res.is_ok() { break; } res = rd.read_message(&buf[..n], &mut p); }
                res.map_err(|e| format!("read {} {:?}", j, e))?;
                all.extend_from_slice(&buf[..n]);
            }
            all.extend_from_slice(i.get_handshake_hash()); Ok(all)
        };
        let clean = { let c = { let mut c = cfg(name); c.psk = kb; c }; transcript_hs(&c) };
        match (run(kb, kb, 0), clean) { (Ok(a), Ok(b)) => if a != b { finding("C07", format!("{}: with failed writes and rejected reads before each step the psk handshake produces different bytes", name)); bad += 1; }, (a, b) => { finding("C07", format!("{}: psk handshake with failed calls and retries does not complete: {:?} / {:?}", name, a.err(), b.err())); bad += 1; } }
        for (what, ki, kr) in [("A against B", ka, kb), ("B against the all-zero psk", kb, kz), ("the all-zero psk against A", kz, ka)] {
            if run(ki, kr, 3).is_ok() { finding("C08", format!("{}: the parties hold different PSKs ({}), yet after failed calls and repeated reads of the same message the handshake completes", name, what)); bad += 1; }
        }
    }
    assert_eq!(bad, 0);
}
fn transcript_hs(c: &Cfg) -> Result<Vec<u8>, String> {
    let nh = table_entry(&base_pattern(&c.name)).3.len();
    let (mut i, mut r) = (build(c, true, None).map_err(|e| format!("{:?}", e))?, build(c, false, None).map_err(|e| format!("{:?}", e))?);
    let mut buf = vec![0u8; 2000]; let mut p = vec![0u8; 2000]; let mut all = vec![];
    for j in 0..nh { let (w, rd) = if j % 2 == 0 { (&mut i, &mut r) } else { (&mut r, &mut i) }; let n = w.write_message(&hs_payload(j), &mut buf).map_err(|e| format!("write {} {:?}", j, e))?; rd.read_message(&buf[..n], &mut p).map_err(|e| format!("read {} {:?}", j, e))?; all.extend_from_slice(&buf[..n]); }
    all.extend_from_slice(i.get_handshake_hash()); Ok(all)
}

#[test]
fn C08_a_wrong_preshared_static_key_never_completes() {
    // the initiator (or responder) holds a copy of the peer's static key that differs in ONE byte - first, middle or last:
    // every byte of a pre-message key is hashed into h, so the handshake must fail (all patterns with a pre-message s; both DHs
    // of the probe's configurations and the DH with a 16-byte shared secret)
    let mut bad = 0;
    for odd in [false, true] {
        for (e, prim) in TABLE.iter().flat_map(|e| with_extensions(&["25519_ChaChaPoly_SHA256"]).into_iter().map(move |p| (e, p))) {
            if odd && !prim.starts_with("25519") { continue; }
            if !e.1.contains(&"s") && !e.2.contains(&"s") { continue; }
            let name = format!("Noise_{}_{}", e.0, prim); let c = cfg(&name); let pl = c.si.1.len();
            for victim_is_initiator in [true, false] {
                let has_pre = if victim_is_initiator { e.2.contains(&"s") } else { e.1.contains(&"s") };
                if !has_pre { continue; }
                for pos in [0usize, pl / 2, pl - 1] {
                    let mut wrong = if victim_is_initiator { c.sr.1.clone() } else { c.si.1.clone() }; wrong[pos] ^= if pos == pl - 1 { 0x80 } else { 0x01 };   // (bit 255 of an X25519 key does not influence the DH result: only the transcript hash can notice it)
                    let params: NoiseParams = name.parse().unwrap();
                    let mk_side = |initiator: bool| -> Result<HandshakeState, Error> {
                        let mut b = match resolver(odd) { Some(r) => Builder::with_resolver(params.clone(), r), None => Builder::new(params.clone()) };
                        let (me, peer, eph) = if initiator { (&c.si, &c.sr, &c.ei) } else { (&c.sr, &c.si, &c.er) };
                        b = b.prologue(&c.prologue)?.local_private_key(&me.0)?.fixed_ephemeral_key_for_testing_only(eph);
                        let peer_pre = if initiator { e.2 } else { e.1 };
                        if peer_pre.contains(&"s") { b = b.remote_public_key(if initiator == victim_is_initiator { &wrong } else { &peer.1 })?; }
                        if initiator { b.build_initiator() } else { b.build_responder() }
                    };
                    let (mut i, mut r) = match (mk_side(true), mk_side(false)) { (Ok(a), Ok(b)) => (a, b), _ => continue };
                    if !rest_detects(&mut i, &mut r, 0, e.3.len()) {
                        finding("C08", format!("{}{}: the {} holds a copy of the peer's pre-shared static key that differs in byte {} of {}, yet the handshake completes without an error", name, if odd { " (DH with a 16-byte shared secret)" } else { "" }, if victim_is_initiator { "initiator" } else { "responder" }, pos, pl)); bad += 1;
                    }
                }
                if bad >= 4 { break; }
            }
            if bad >= 4 { break; }
        }
    }
    assert_eq!(bad, 0);
}
#[test]
fn C18_x25519_rfc7748_vectors_with_arbitrary_u_coordinates() {
    // RFC 7748 section 5.2: the u-coordinates of these vectors are arbitrary field elements (not multiples of the base point), which
    // is what distinguishes X25519 proper from a multiplication that silently assumes the prime-order subgroup
    let mut bad = 0;
    for (k, u, want) in [("a546e36bf0527c9d3b16154b82465edd62144c0ac1fc5a18506a2244ba449ac4", "e6db6867583030db3594c1a424b15f7c726624ec26b3353b10a903a6d0ab1c4c", "c3da55379de9c6908e94ea4df28d084f32eccf03491c71f754b4075577a28552"),
                         ("4b66e9d4d1b4673c5ad22691957d6af5c11b6421e0ea01d42ca4169e7918ba0d", "e5210f12786811d3f4b7959d0538ae2c31dbe7106fc03c3efc4cd549c715a493", "95cbde9476e8907d7aade45cb4b873f88b595a68799fa152e6f8f7647aac7957"),
                         ("0900000000000000000000000000000000000000000000000000000000000000", "0900000000000000000000000000000000000000000000000000000000000000", "422c8e7a6227d7bca1350b3e2bb7279f7897b87bb6854b783c60e80311ae3079")] {
        let mut dh = DefaultResolver.resolve_dh(&DHChoice::Curve25519).unwrap();
        dh.set(&unhex(k));
        let mut out = [0u8; 65];
        match dh.dh(&unhex(u), &mut out) { Ok(()) if out[..32] == unhex(want)[..] => {}, o => { finding("C18", format!("X25519({}, {}) = {} ({:?}), RFC 7748 section 5.2 says {}", k, u, hexs(&out[..32]), o, want)); bad += 1; } }
    }
    assert_eq!(bad, 0);
}
