pub mod vspec {
use vstd::prelude::*;
verus! {

pub assume_specification<T, F: FnOnce() -> Option<T>>[ Option::<T>::or_else ](opt: Option<T>, f: F) -> (r: Option<T>)
    requires opt.is_none() ==> f.requires(()),
    ensures opt.is_some() ==> r == opt,
            opt.is_none() ==> f.ensures((), r);

// ---- abstract primitives -------------------------------------------------
pub uninterp spec fn hash_fn(id: int, data: Seq<u8>) -> Seq<u8>;
pub uninterp spec fn aead_enc(id: int, k: Seq<u8>, n: u64, ad: Seq<u8>, pt: Seq<u8>) -> Seq<u8>;
pub uninterp spec fn aead_dec(id: int, k: Seq<u8>, n: u64, ad: Seq<u8>, ct: Seq<u8>) -> Option<Seq<u8>>;
// what a built-in cipher leaves in the caller's buffer when authentication fails: a function of public data only
// (the previous buffer contents and the ciphertext) - never of the key or the plaintext (C19)
pub uninterp spec fn dec_fail_out(id: int, old_out: Seq<u8>, ct: Seq<u8>) -> Seq<u8>;
pub uninterp spec fn dh_pub(id: int, sk: Seq<u8>) -> Seq<u8>;
// public-key length of the DH function `id`
pub uninterp spec fn dh_pub_len(id: int) -> int;
pub uninterp spec fn dh_fn(id: int, sk: Seq<u8>, pk: Seq<u8>) -> Seq<u8>;
// whether the DH function accepts this peer public key (always true for X25519; P-256 rejects invalid points)
pub uninterp spec fn dh_valid(id: int, sk: Seq<u8>, pk: Seq<u8>) -> bool;

// what a primitive *name* in a Noise protocol name stands for: every backend that provides e.g. DHChoice::Curve25519
// must provide the same function with the same lengths (assumed contract of CryptoResolver implementations)
pub uninterp spec fn spec_dh_id(c: crate::params::DHChoice) -> int;
pub uninterp spec fn spec_dh_pl(c: crate::params::DHChoice) -> int;
pub uninterp spec fn spec_dh_dl(c: crate::params::DHChoice) -> int;
pub uninterp spec fn spec_dh_prl(c: crate::params::DHChoice) -> int;
pub uninterp spec fn spec_hash_id(c: crate::params::HashChoice) -> int;
pub uninterp spec fn spec_hash_hl(c: crate::params::HashChoice) -> int;
pub uninterp spec fn spec_hash_bl(c: crate::params::HashChoice) -> int;
pub uninterp spec fn spec_cipher_id(c: crate::params::CipherChoice) -> int;
pub uninterp spec fn gen_sk(rng_state: int, did: int) -> Seq<u8>;
pub uninterp spec fn gen_next(rng_state: int) -> int;
pub open spec fn zeros(n: int) -> Seq<u8> { Seq::new(n as nat, |i: int| 0u8) }

// ---- RFC 2104 / Noise 4.3 ---------------------------------------------------
pub open spec fn pad_block(key: Seq<u8>, block_len: int, c: u8) -> Seq<u8> {
    Seq::new(block_len as nat, |i: int| if i < key.len() { c ^ key[i] } else { c })
}
pub open spec fn spec_hmac(id: int, bl: int, key: Seq<u8>, data: Seq<u8>) -> Seq<u8> {
    hash_fn(id, pad_block(key, bl, 0x5c) + hash_fn(id, pad_block(key, bl, 0x36) + data))
}
#[verifier::opaque]
pub open spec fn hkdf1(id: int, bl: int, ck: Seq<u8>, ikm: Seq<u8>) -> Seq<u8> {
    spec_hmac(id, bl, spec_hmac(id, bl, ck, ikm), seq![1u8])
}
#[verifier::opaque]
pub open spec fn hkdf2(id: int, bl: int, ck: Seq<u8>, ikm: Seq<u8>) -> Seq<u8> {
    spec_hmac(id, bl, spec_hmac(id, bl, ck, ikm), hkdf1(id, bl, ck, ikm) + seq![2u8])
}
#[verifier::opaque]
pub open spec fn hkdf3(id: int, bl: int, ck: Seq<u8>, ikm: Seq<u8>) -> Seq<u8> {
    spec_hmac(id, bl, spec_hmac(id, bl, ck, ikm), hkdf2(id, bl, ck, ikm) + seq![3u8])
}
#[verifier::opaque]
pub open spec fn spec_rekey(id: int, k: Seq<u8>) -> Seq<u8> {
    aead_enc(id, k, u64::MAX, Seq::<u8>::empty(), zeros(32)).subrange(0, 32)
}

// Verus prunes the `u8: Copy` impl fact in some crate contexts; array-repeat axioms need it.
pub proof fn use_copy<T: Copy>() {}
pub proof fn lemma_xor_zero(c: u8) ensures c ^ 0u8 == c { assert(c ^ 0u8 == c) by(bit_vector); }

pub proof fn lemma_pad_zero_ext(key: Seq<u8>, m: int, bl: int, c: u8)
    requires m >= 0, key.len() + m <= bl
    ensures pad_block(key + zeros(m), bl, c) =~= pad_block(key, bl, c)
{
    assert forall|i: int| 0 <= i < bl implies pad_block(key + zeros(m), bl, c)[i] == pad_block(key, bl, c)[i] by {
        lemma_xor_zero(c);
    }
}

} // verus!
}
