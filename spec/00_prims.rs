pub mod vspec {
use vstd::prelude::*;
verus! {

pub assume_specification<T, F: FnOnce() -> Option<T>>[ Option::<T>::or_else ](opt: Option<T>, f: F) -> (r: Option<T>)
    requires opt.is_none() ==> f.requires(()),
    ensures opt.is_some() ==> r == opt,
            opt.is_none() ==> f.ensures((), r);

pub assume_specification<T, E, F>[ Result::<T, E>::or ](r: Result<T, E>, res: Result<T, F>) -> (o: Result<T, F>)
    ensures o == (match r { Ok(v) => Ok::<T, F>(v), Err(_) => res });

// ---- primitives ---------------------------------------------------------------------------------
// The core unit treats hash_fn / aead_enc / aead_dec / dh_pub / dh_fn as opaque functions of an algorithm id.
// The wrapper unit (R16) reveals the definitions below: ids 1.. are the *standard* algorithms behind the names
// that may appear in a Noise protocol name, with the Noise nonce encodings (rev 34, section 12; snow's documented
// XChaChaPoly extension).  The standard algorithms themselves stay uninterpreted (third-party code, out of reach).
pub uninterp spec fn std_sha256(d: Seq<u8>) -> Seq<u8>;      // FIPS 180-4
pub uninterp spec fn std_sha512(d: Seq<u8>) -> Seq<u8>;      // FIPS 180-4
pub uninterp spec fn std_blake2s(d: Seq<u8>) -> Seq<u8>;     // RFC 7693, 32-byte digest
pub uninterp spec fn std_blake2b(d: Seq<u8>) -> Seq<u8>;     // RFC 7693, 64-byte digest
pub uninterp spec fn other_hash(id: int, d: Seq<u8>) -> Seq<u8>;
pub open spec fn ID_SHA256() -> int { 1 }
pub open spec fn ID_SHA512() -> int { 2 }
pub open spec fn ID_BLAKE2S() -> int { 3 }
pub open spec fn ID_BLAKE2B() -> int { 4 }
#[verifier::opaque]
pub open spec fn hash_fn(id: int, data: Seq<u8>) -> Seq<u8> {
    if id == 1 { std_sha256(data) } else if id == 2 { std_sha512(data) } else if id == 3 { std_blake2s(data) } else if id == 4 { std_blake2b(data) } else { other_hash(id, data) }
}
// detached-tag AEADs of RFC 8439 / NIST SP 800-38D / draft-irtf-cfrg-xchacha: result is ciphertext || 16-byte tag
pub uninterp spec fn std_chachapoly_enc(k: Seq<u8>, nonce12: Seq<u8>, ad: Seq<u8>, pt: Seq<u8>) -> Seq<u8>;
pub uninterp spec fn std_chachapoly_dec(k: Seq<u8>, nonce12: Seq<u8>, ad: Seq<u8>, ct: Seq<u8>) -> Option<Seq<u8>>;
pub uninterp spec fn std_aes256gcm_enc(k: Seq<u8>, nonce12: Seq<u8>, ad: Seq<u8>, pt: Seq<u8>) -> Seq<u8>;
pub uninterp spec fn std_aes256gcm_dec(k: Seq<u8>, nonce12: Seq<u8>, ad: Seq<u8>, ct: Seq<u8>) -> Option<Seq<u8>>;
pub uninterp spec fn std_xchachapoly_enc(k: Seq<u8>, nonce24: Seq<u8>, ad: Seq<u8>, pt: Seq<u8>) -> Seq<u8>;
pub uninterp spec fn std_xchachapoly_dec(k: Seq<u8>, nonce24: Seq<u8>, ad: Seq<u8>, ct: Seq<u8>) -> Option<Seq<u8>>;
pub uninterp spec fn other_aead_enc(id: int, k: Seq<u8>, n: u64, ad: Seq<u8>, pt: Seq<u8>) -> Seq<u8>;
pub uninterp spec fn other_aead_dec(id: int, k: Seq<u8>, n: u64, ad: Seq<u8>, ct: Seq<u8>) -> Option<Seq<u8>>;
pub open spec fn ID_CHACHAPOLY() -> int { 1 }
pub open spec fn ID_AESGCM() -> int { 2 }
pub open spec fn ID_XCHACHAPOLY() -> int { 3 }
pub open spec fn le64(n: u64) -> Seq<u8> { Seq::new(8, |i: int| ((n >> ((8 * i) as u64)) & 0xff) as u8) }
pub open spec fn be64(n: u64) -> Seq<u8> { Seq::new(8, |i: int| ((n >> ((8 * (7 - i)) as u64)) & 0xff) as u8) }
// Noise 12.3: ChaChaPoly nonce = 32 zero bits || little-endian n.  12.4: AESGCM nonce = 32 zero bits || big-endian n.
pub open spec fn nonce_chacha(n: u64) -> Seq<u8> { zeros(4) + le64(n) }
pub open spec fn nonce_aesgcm(n: u64) -> Seq<u8> { zeros(4) + be64(n) }
pub open spec fn nonce_xchacha(n: u64) -> Seq<u8> { zeros(16) + le64(n) }
#[verifier::opaque]
pub open spec fn aead_enc(id: int, k: Seq<u8>, n: u64, ad: Seq<u8>, pt: Seq<u8>) -> Seq<u8> {
    if id == 1 { std_chachapoly_enc(k, nonce_chacha(n), ad, pt) } else if id == 2 { std_aes256gcm_enc(k, nonce_aesgcm(n), ad, pt) }
    else if id == 3 { std_xchachapoly_enc(k, nonce_xchacha(n), ad, pt) } else { other_aead_enc(id, k, n, ad, pt) }
}
#[verifier::opaque]
pub open spec fn aead_dec(id: int, k: Seq<u8>, n: u64, ad: Seq<u8>, ct: Seq<u8>) -> Option<Seq<u8>> {
    if id == 1 { std_chachapoly_dec(k, nonce_chacha(n), ad, ct) } else if id == 2 { std_aes256gcm_dec(k, nonce_aesgcm(n), ad, ct) }
    else if id == 3 { std_xchachapoly_dec(k, nonce_xchacha(n), ad, ct) } else { other_aead_dec(id, k, n, ad, ct) }
}
// what a cipher object of backend `origin` leaves in the caller's buffer when authentication fails: a function of
// public data only (the previous buffer contents and the ciphertext) - never of the key or the plaintext (C19).
// origin 1 = snow's default (RustCrypto) wrappers: the ciphertext body is copied, the tag check fails, nothing else is written.
// origin 2 = snow's ring wrappers: in place when the buffer holds the whole message (ring's leftover), untouched otherwise.
pub uninterp spec fn ring_fail_buf(ct: Seq<u8>) -> Seq<u8>;
pub uninterp spec fn other_fail_out(origin: int, old_out: Seq<u8>, ct: Seq<u8>) -> Seq<u8>;
pub open spec fn ORIGIN_DEFAULT() -> int { 1 }
pub open spec fn ORIGIN_RING() -> int { 2 }
#[verifier::opaque]
pub open spec fn dec_fail_out(origin: int, old_out: Seq<u8>, ct: Seq<u8>) -> Seq<u8> {
    if origin == 1 { ct.subrange(0, ct.len() - 16) + old_out.subrange(ct.len() - 16, old_out.len() as int) }
    else if origin == 2 { if old_out.len() >= ct.len() { ring_fail_buf(ct) + old_out.subrange(ct.len() as int, old_out.len() as int) } else { old_out } }
    else { other_fail_out(origin, old_out, ct) }
}
// X25519 (RFC 7748) with clamping; id 1
pub uninterp spec fn std_x25519_base(sk: Seq<u8>) -> Seq<u8>;
pub uninterp spec fn std_x25519(sk: Seq<u8>, pk: Seq<u8>) -> Seq<u8>;
pub uninterp spec fn other_dh_pub(id: int, sk: Seq<u8>) -> Seq<u8>;
pub uninterp spec fn other_dh_fn(id: int, sk: Seq<u8>, pk: Seq<u8>) -> Seq<u8>;
pub uninterp spec fn other_dh_valid(id: int, sk: Seq<u8>, pk: Seq<u8>) -> bool;
pub uninterp spec fn other_dh_pub_len(id: int) -> int;
pub uninterp spec fn other_dh_priv_len(id: int) -> int;
pub open spec fn ID_X25519() -> int { 1 }
// NIST P-256 ECDH (snow's documented extension): uncompressed SEC1 public keys (65 bytes), 32-byte shared secret; id 2
pub open spec fn ID_P256() -> int { 2 }
pub uninterp spec fn std_p256_pub(sk: Seq<u8>) -> Seq<u8>;
pub uninterp spec fn std_p256_ecdh(sk: Seq<u8>, pk: Seq<u8>) -> Seq<u8>;
pub uninterp spec fn p256_valid_scalar(sk: Seq<u8>) -> bool;
pub uninterp spec fn p256_valid_point(pk: Seq<u8>) -> bool;
#[verifier::opaque]
pub open spec fn dh_pub(id: int, sk: Seq<u8>) -> Seq<u8> { if id == 1 { std_x25519_base(sk) } else if id == 2 { std_p256_pub(sk) } else { other_dh_pub(id, sk) } }
// public-key length of the DH function `id`
#[verifier::opaque]
pub open spec fn dh_pub_len(id: int) -> int { if id == 1 { 32 } else if id == 2 { 65 } else { other_dh_pub_len(id) } }
#[verifier::opaque]
pub open spec fn dh_priv_len(id: int) -> int { if id == 1 { 32 } else if id == 2 { 32 } else { other_dh_priv_len(id) } }
#[verifier::opaque]
pub open spec fn dh_fn(id: int, sk: Seq<u8>, pk: Seq<u8>) -> Seq<u8> { if id == 1 { std_x25519(sk, pk) } else if id == 2 { std_p256_ecdh(sk, pk) } else { other_dh_fn(id, sk, pk) } }
// whether the DH function accepts this peer public key (always true for X25519; P-256 rejects invalid points)
#[verifier::opaque]
pub open spec fn dh_valid(id: int, sk: Seq<u8>, pk: Seq<u8>) -> bool { if id == 1 { true } else if id == 2 { p256_valid_scalar(sk) && p256_valid_point(pk) } else { other_dh_valid(id, sk, pk) } }

// what a primitive *name* in a Noise protocol name stands for: every backend that provides e.g. DHChoice::Curve25519
// must provide the same function with the same lengths (assumed contract of CryptoResolver implementations)
pub uninterp spec fn other_dh_choice(c: crate::params::DHChoice, what: int) -> int;
pub uninterp spec fn other_cipher_choice(c: crate::params::CipherChoice) -> int;
pub open spec fn spec_dh_id(c: crate::params::DHChoice) -> int {
    match c {
        crate::params::DHChoice::Curve25519 => 1,
        #[cfg(feature = "p256")]
        crate::params::DHChoice::P256 => 2,
        _ => other_dh_choice(c, 0),
    }
}
pub open spec fn spec_dh_pl(c: crate::params::DHChoice) -> int {
    match c {
        crate::params::DHChoice::Curve25519 => 32,
        #[cfg(feature = "p256")]
        crate::params::DHChoice::P256 => 65,
        _ => other_dh_choice(c, 1),
    }
}
pub open spec fn spec_dh_dl(c: crate::params::DHChoice) -> int {
    match c {
        crate::params::DHChoice::Curve25519 => 32,
        #[cfg(feature = "p256")]
        crate::params::DHChoice::P256 => 32,
        _ => other_dh_choice(c, 2),
    }
}
pub open spec fn spec_dh_prl(c: crate::params::DHChoice) -> int {
    match c {
        crate::params::DHChoice::Curve25519 => 32,
        #[cfg(feature = "p256")]
        crate::params::DHChoice::P256 => 32,
        _ => other_dh_choice(c, 3),
    }
}
pub open spec fn spec_hash_id(c: crate::params::HashChoice) -> int {
    match c { crate::params::HashChoice::SHA256 => 1, crate::params::HashChoice::SHA512 => 2, crate::params::HashChoice::Blake2s => 3, crate::params::HashChoice::Blake2b => 4 }
}
pub open spec fn spec_hash_hl(c: crate::params::HashChoice) -> int {
    match c { crate::params::HashChoice::SHA256 => 32, crate::params::HashChoice::SHA512 => 64, crate::params::HashChoice::Blake2s => 32, crate::params::HashChoice::Blake2b => 64 }
}
pub open spec fn spec_hash_bl(c: crate::params::HashChoice) -> int {
    match c { crate::params::HashChoice::SHA256 => 64, crate::params::HashChoice::SHA512 => 128, crate::params::HashChoice::Blake2s => 64, crate::params::HashChoice::Blake2b => 128 }
}
pub open spec fn spec_cipher_id(c: crate::params::CipherChoice) -> int {
    match c {
        crate::params::CipherChoice::ChaChaPoly => 1, crate::params::CipherChoice::AESGCM => 2,
        #[cfg(feature = "use-xchacha20poly1305")]
        crate::params::CipherChoice::XChaChaPoly => 3,
        #[allow(unreachable_patterns)]
        _ => other_cipher_choice(c),
    }
}
// randomness model: an RNG is a hidden state; the bytes it returns and its next state are functions of that state
pub uninterp spec fn gen_bytes(rng_state: int, n: int) -> Seq<u8>;
#[verifier::opaque]
pub open spec fn gen_sk(rng_state: int, did: int) -> Seq<u8> { gen_bytes(rng_state, dh_priv_len(did)) }
pub uninterp spec fn gen_next(rng_state: int) -> int;
pub open spec fn zeros(n: int) -> Seq<u8> { Seq::new(n as nat, |i: int| 0u8) }

// ---- RFC 2104 / Noise 4.3 ---------------------------------------------------
pub open spec fn pad_block(key: Seq<u8>, block_len: int, c: u8) -> Seq<u8> {
    Seq::new(block_len as nat, |i: int| if i < key.len() { c ^ key[i] } else { c })
}
pub open spec fn spec_hmac(id: int, bl: int, key: Seq<u8>, data: Seq<u8>) -> Seq<u8> {
    hash_fn(id, pad_block(key, bl, 0x5c) + hash_fn(id, pad_block(key, bl, 0x36) + data))
}
#[verifier::opaque]
pub open spec fn hkdf1(id: int, bl: int, ck: Seq<u8>, ikm: Seq<u8>) -> Seq<u8> {
    spec_hmac(id, bl, spec_hmac(id, bl, ck, ikm), seq![1u8])
}
#[verifier::opaque]
pub open spec fn hkdf2(id: int, bl: int, ck: Seq<u8>, ikm: Seq<u8>) -> Seq<u8> {
    spec_hmac(id, bl, spec_hmac(id, bl, ck, ikm), hkdf1(id, bl, ck, ikm) + seq![2u8])
}
#[verifier::opaque]
pub open spec fn hkdf3(id: int, bl: int, ck: Seq<u8>, ikm: Seq<u8>) -> Seq<u8> {
    spec_hmac(id, bl, spec_hmac(id, bl, ck, ikm), hkdf2(id, bl, ck, ikm) + seq![3u8])
}
#[verifier::opaque]
pub open spec fn spec_rekey(id: int, k: Seq<u8>) -> Seq<u8> {
    aead_enc(id, k, u64::MAX, Seq::<u8>::empty(), zeros(32)).subrange(0, 32)
}

// Verus prunes the `u8: Copy` impl fact in some crate contexts; array-repeat axioms need it.
pub proof fn use_copy<T: Copy>() {}
pub proof fn lemma_xor_zero(c: u8) ensures c ^ 0u8 == c { assert(c ^ 0u8 == c) by(bit_vector); }

pub proof fn lemma_pad_zero_ext(key: Seq<u8>, m: int, bl: int, c: u8)
    requires m >= 0, key.len() + m <= bl
    ensures pad_block(key + zeros(m), bl, c) =~= pad_block(key, bl, c)
{
    assert forall|i: int| 0 <= i < bl implies pad_block(key + zeros(m), bl, c)[i] == pad_block(key, bl, c)[i] by {
        lemma_xor_zero(c);
    }
}

} // verus!
}
