// ASSUMED CONTRACTS of the ring 0.17 API that snow's ring resolver calls (R16r).  Only the surface used by
// src/resolvers/ring.rs is declared; every function is external_body: its contract is an assumption about the dependency.
pub mod deps_ring {
use vstd::prelude::*;
verus! {
// ASSUMED (alloc): <[T]>::to_vec clones every element in order
pub assume_specification<T: Clone>[<[T]>::to_vec](s: &[T]) -> (r: Vec<T>)
    ensures r@.len() == s@.len(), forall|i: int| 0 <= i < s@.len() ==> vstd::pervasive::cloned(#[trigger] s@[i], r@[i]);
}
pub mod ring {
    pub mod rerror {
        use vstd::prelude::*;
        verus! {
        #[derive(Debug)]
        pub struct Unspecified;
        }
    }
    pub mod aead {
        use vstd::prelude::*;
        use super::rerror::Unspecified;
        verus! {
        // algorithm descriptors; `id` is the algorithm id of spec/00_prims.rs
        pub struct Algorithm { pub id: u8 }
        pub exec static AES_256_GCM: Algorithm ensures AES_256_GCM.id == 2 { Algorithm { id: 2 } }
        pub exec static CHACHA20_POLY1305: Algorithm ensures CHACHA20_POLY1305.id == 1 { Algorithm { id: 1 } }
        pub struct UnboundKey { pub alg: u8, pub key: Ghost<Seq<u8>> }
        impl UnboundKey {
            // assumed: both algorithms take exactly 32 key bytes
            #[verifier::external_body]
            pub fn new(algorithm: &'static Algorithm, key_bytes: &[u8]) -> (r: Result<Self, Unspecified>)
                ensures r is Ok <==> key_bytes@.len() == 32, r matches Ok(k) ==> k.alg == algorithm.id && k.key@ == key_bytes@,
            { unimplemented!() }
        }
        pub struct Nonce(pub [u8; 12]);
        impl Nonce { pub fn assume_unique_for_key(value: [u8; 12]) -> (r: Nonce) ensures r.0 == value { Nonce(value) } }
        pub struct Aad<'a>(pub &'a [u8]);
        impl<'a> From<&'a [u8]> for Aad<'a> { fn from(a: &'a [u8]) -> (r: Aad<'a>) ensures r.0@ == a@ { Aad(a) } }
        impl<'a> vstd::std_specs::convert::FromSpecImpl<&'a [u8]> for Aad<'a> { open spec fn obeys_from_spec() -> bool { true } open spec fn from_spec(v: &'a [u8]) -> Self { Aad(v) } }
        pub struct Tag(pub [u8; 16]);
        impl Tag { pub fn as_ref(&self) -> (r: &[u8]) ensures r@ == self.0@ { &self.0 } }
        //- the standard AEAD named by an algorithm id, on a 12-byte nonce
        pub open spec fn ring_enc(alg: u8, key: Seq<u8>, nonce: Seq<u8>, ad: Seq<u8>, pt: Seq<u8>) -> Seq<u8> {
            if alg == 1 { crate::vspec::std_chachapoly_enc(key, nonce, ad, pt) } else { crate::vspec::std_aes256gcm_enc(key, nonce, ad, pt) }
        }
        pub open spec fn ring_dec(alg: u8, key: Seq<u8>, nonce: Seq<u8>, ad: Seq<u8>, ct: Seq<u8>) -> Option<Seq<u8>> {
            if alg == 1 { crate::vspec::std_chachapoly_dec(key, nonce, ad, ct) } else { crate::vspec::std_aes256gcm_dec(key, nonce, ad, ct) }
        }
        pub struct LessSafeKey { pub alg: u8, pub key: Ghost<Seq<u8>> }
        impl LessSafeKey {
            #[verifier::external_body]
            pub fn new(key: UnboundKey) -> (r: Self) ensures r.alg == key.alg, r.key@ == key.key@ { unimplemented!() }
            // assumed: standard AEAD encryption in place, tag returned separately; never fails for buffers below the
            // algorithm's limit (2^36-32 bytes for AES-GCM, 2^38-64 for ChaCha20-Poly1305)
            #[verifier::external_body]
            pub fn seal_in_place_separate_tag(&self, nonce: Nonce, aad: Aad<'_>, in_out: &mut [u8]) -> (r: Result<Tag, Unspecified>)
                ensures final(in_out)@.len() == old(in_out)@.len(), r is Ok,
                    r matches Ok(tag) ==> final(in_out)@ + tag.0@ == ring_enc(self.alg, self.key@, nonce.0@, aad.0@, old(in_out)@),
            { unimplemented!() }
            // assumed: in_out holds ciphertext || tag.  Success: the plaintext is written over the start of in_out and returned
            // as that sub-slice (the tag bytes behind it are left as they were).  Failure: the buffer keeps its length and
            // holds whatever ring leaves there (ring 0.17 zeroes the would-be plaintext): ring_fail_buf(ct)
            #[verifier::external_body]
            pub fn open_in_place<'a>(&self, nonce: Nonce, aad: Aad<'_>, in_out: &'a mut [u8]) -> (r: Result<&'a mut [u8], Unspecified>)
                ensures final(in_out)@.len() == old(in_out)@.len(),
                    r is Ok <==> (old(in_out)@.len() >= 16 && ring_dec(self.alg, self.key@, nonce.0@, aad.0@, old(in_out)@) is Some),
                    r matches Ok(p) ==> ring_dec(self.alg, self.key@, nonce.0@, aad.0@, old(in_out)@) == Some(p@)
                        && p@.len() == old(in_out)@.len() - 16
                        && final(in_out)@ == p@ + old(in_out)@.subrange(old(in_out)@.len() - 16, old(in_out)@.len() as int),
                    r is Err ==> final(in_out)@ == crate::vspec::ring_fail_buf(old(in_out)@),
            { unimplemented!() }
        }
        }
    }
    pub mod digest {
        use vstd::prelude::*;
        verus! {
        pub struct Algorithm { pub id: u8 }
        pub exec static SHA256: Algorithm ensures SHA256.id == 1 { Algorithm { id: 1 } }
        pub exec static SHA512: Algorithm ensures SHA512.id == 2 { Algorithm { id: 2 } }
        pub open spec fn ring_digest(alg: u8, data: Seq<u8>) -> Seq<u8> { if alg == 1 { crate::vspec::std_sha256(data) } else { crate::vspec::std_sha512(data) } }
        // incremental hashing context: `buf` is the ghost concatenation of everything fed since creation
        pub struct Context { pub alg: u8, pub buf: Ghost<Seq<u8>> }
        impl Context {
            #[verifier::external_body]
            pub fn new(algorithm: &'static Algorithm) -> (r: Context) ensures r.alg == algorithm.id, r.buf@ == Seq::<u8>::empty() { unimplemented!() }
            #[verifier::external_body]
            pub fn update(&mut self, data: &[u8]) ensures final(self).alg == old(self).alg, final(self).buf@ == old(self).buf@ + data@ no_unwind { unimplemented!() }
            #[verifier::external_body]
            pub fn finish(self) -> (r: Digest) ensures r.alg == self.alg, r.value@ == ring_digest(self.alg, self.buf@), r.value@.len() == (if self.alg == 1 { 32int } else { 64int }) { unimplemented!() }
        }
        impl Context {
            #[verifier::external_body]
            pub fn clone(&self) -> (r: Context) ensures r.alg == self.alg, r.buf@ == self.buf@ { unimplemented!() }
        }
        pub struct Digest { pub alg: u8, pub value: Ghost<Seq<u8>> }
        impl Digest {
            #[verifier::external_body]
            pub fn as_ref(&self) -> (r: &[u8]) ensures r@ == self.value@ { unimplemented!() }
        }
        }
    }
    pub mod rand {
        use vstd::prelude::*;
        use super::rerror::Unspecified;
        verus! {
        pub struct SystemRandom { pub st: Ghost<int> }
        impl SystemRandom {
            #[verifier::external_body]
            pub fn new() -> (r: SystemRandom) { unimplemented!() }
        }
        pub trait SecureRandom { }
        }
    }
}
}
