// ASSUMED CONTRACTS of the third-party APIs that snow's default resolver calls (R16).  Only the surface used by
// src/resolvers/default.rs is declared.  Every function is external_body: its contract is an assumption about the
// dependency (RustCrypto chacha20poly1305 0.10 / aes-gcm 0.10 / aead 0.5, sha2 0.10, blake2 0.10,
// curve25519-dalek 4, rand_core 0.6), checked by reading those crates' sources, not by the verifier.
pub mod deps {
use vstd::prelude::*;
pub mod generic {
    use vstd::prelude::*;
    verus! {
    // stand-ins for generic_array::GenericArray<u8, N> (keys, nonces, tags, digests)
    pub struct Key32(pub [u8; 32]);
    pub struct Nonce12(pub [u8; 12]);
    pub struct Nonce24(pub [u8; 24]);
    pub struct Tag(pub [u8; 16]);
    pub struct Out32(pub [u8; 32]);
    pub struct Out64(pub [u8; 64]);
    impl From<[u8; 32]> for Key32 { fn from(a: [u8; 32]) -> (r: Key32) ensures r.0 == a { Key32(a) } }
    impl From<[u8; 12]> for Nonce12 { fn from(a: [u8; 12]) -> (r: Nonce12) ensures r.0 == a { Nonce12(a) } }
    impl From<[u8; 24]> for Nonce24 { fn from(a: [u8; 24]) -> (r: Nonce24) ensures r.0 == a { Nonce24(a) } }
    impl vstd::std_specs::convert::FromSpecImpl<[u8; 32]> for Key32 { open spec fn obeys_from_spec() -> bool { true } open spec fn from_spec(v: [u8; 32]) -> Self { Key32(v) } }
    impl vstd::std_specs::convert::FromSpecImpl<[u8; 12]> for Nonce12 { open spec fn obeys_from_spec() -> bool { true } open spec fn from_spec(v: [u8; 12]) -> Self { Nonce12(v) } }
    impl vstd::std_specs::convert::FromSpecImpl<[u8; 24]> for Nonce24 { open spec fn obeys_from_spec() -> bool { true } open spec fn from_spec(v: [u8; 24]) -> Self { Nonce24(v) } }
    // `ciphertext[message_len..].into()` : &[u8] -> &GenericArray<u8, U16>; generic_array panics unless the slice has 16 bytes
    pub struct TagRef<'a>(pub &'a [u8]);
    impl<'a> From<&'a [u8]> for TagRef<'a> {
        #[verifier::external_body]
        fn from(a: &'a [u8]) -> (r: TagRef<'a>) { TagRef(a) }
    }
    impl<'a> vstd::std_specs::convert::FromSpecImpl<&'a [u8]> for TagRef<'a> { open spec fn obeys_from_spec() -> bool { true } open spec fn from_spec(v: &'a [u8]) -> Self { TagRef(v) } }
    impl Tag { pub fn len(&self) -> (r: usize) ensures r == 16 { 16 } }
    impl core::ops::Deref for Tag { type Target = [u8]; fn deref(&self) -> (r: &[u8]) ensures r@ == self.0@ { &self.0 } }
    impl Out32 { pub fn as_slice(&self) -> (r: &[u8]) ensures r@ == self.0@ { &self.0 } }
    impl Out64 { pub fn as_slice(&self) -> (r: &[u8]) ensures r@ == self.0@ { &self.0 } }
    impl core::ops::Deref for Out32 { type Target = [u8]; fn deref(&self) -> (r: &[u8]) ensures r@ == self.0@ { &self.0 } }
    impl core::ops::Deref for Out64 { type Target = [u8]; fn deref(&self) -> (r: &[u8]) ensures r@ == self.0@ { &self.0 } }
    #[derive(Debug)]
    pub struct AeadError;
    }
}
pub mod chacha20poly1305 {
    use vstd::prelude::*;
    pub use super::generic::*;
    verus! {
    pub mod aead { pub trait AeadInPlace {} }
    pub trait KeyInit {}
    pub struct ChaCha20Poly1305 { pub key: [u8; 32] }
    impl ChaCha20Poly1305 {
        #[verifier::external_body]
        pub fn new(key: &Key32) -> (r: Self) ensures r.key == key.0 { unimplemented!() }
        // assumed: RFC 8439 encryption in place, tag returned separately; never fails for buffers < 2^38 bytes
        #[verifier::external_body]
        pub fn encrypt_in_place_detached(&self, nonce: &Nonce12, ad: &[u8], buffer: &mut [u8]) -> (r: Result<Tag, AeadError>)
            ensures final(buffer)@.len() == old(buffer)@.len(), r is Ok,
                r matches Ok(tag) ==> final(buffer)@ + tag.0@ == crate::vspec::std_chachapoly_enc(self.key@, nonce.0@, ad@, old(buffer)@),
        { unimplemented!() }
        // assumed: the tag is verified BEFORE the keystream is applied; on a mismatch the buffer is left untouched
        #[verifier::external_body]
        pub fn decrypt_in_place_detached(&self, nonce: &Nonce12, ad: &[u8], buffer: &mut [u8], tag: TagRef<'_>) -> (r: Result<(), AeadError>)
            requires tag.0@.len() == 16
            ensures final(buffer)@.len() == old(buffer)@.len(),
                r is Ok <==> crate::vspec::std_chachapoly_dec(self.key@, nonce.0@, ad@, old(buffer)@ + tag.0@) is Some,
                r is Ok ==> crate::vspec::std_chachapoly_dec(self.key@, nonce.0@, ad@, old(buffer)@ + tag.0@) == Some(final(buffer)@),
                r is Err ==> final(buffer)@ == old(buffer)@,
        { unimplemented!() }
    }
    pub struct XChaCha20Poly1305 { pub key: [u8; 32] }
    impl XChaCha20Poly1305 {
        #[verifier::external_body]
        pub fn new(key: &Key32) -> (r: Self) ensures r.key == key.0 { unimplemented!() }
        #[verifier::external_body]
        pub fn encrypt_in_place_detached(&self, nonce: &Nonce24, ad: &[u8], buffer: &mut [u8]) -> (r: Result<Tag, AeadError>)
            ensures final(buffer)@.len() == old(buffer)@.len(), r is Ok,
                r matches Ok(tag) ==> final(buffer)@ + tag.0@ == crate::vspec::std_xchachapoly_enc(self.key@, nonce.0@, ad@, old(buffer)@),
        { unimplemented!() }
        #[verifier::external_body]
        pub fn decrypt_in_place_detached(&self, nonce: &Nonce24, ad: &[u8], buffer: &mut [u8], tag: TagRef<'_>) -> (r: Result<(), AeadError>)
            requires tag.0@.len() == 16
            ensures final(buffer)@.len() == old(buffer)@.len(),
                r is Ok <==> crate::vspec::std_xchachapoly_dec(self.key@, nonce.0@, ad@, old(buffer)@ + tag.0@) is Some,
                r is Ok ==> crate::vspec::std_xchachapoly_dec(self.key@, nonce.0@, ad@, old(buffer)@ + tag.0@) == Some(final(buffer)@),
                r is Err ==> final(buffer)@ == old(buffer)@,
        { unimplemented!() }
    }
    }
}
pub mod aes_gcm {
    use vstd::prelude::*;
    pub use super::generic::*;
    verus! {
    pub struct Aes256Gcm { pub key: [u8; 32] }
    impl Aes256Gcm {
        #[verifier::external_body]
        pub fn new(key: &Key32) -> (r: Self) ensures r.key == key.0 { unimplemented!() }
        #[verifier::external_body]
        pub fn encrypt_in_place_detached(&self, nonce: &Nonce12, ad: &[u8], buffer: &mut [u8]) -> (r: Result<Tag, AeadError>)
            ensures final(buffer)@.len() == old(buffer)@.len(), r is Ok,
                r matches Ok(tag) ==> final(buffer)@ + tag.0@ == crate::vspec::std_aes256gcm_enc(self.key@, nonce.0@, ad@, old(buffer)@),
        { unimplemented!() }
        // assumed (aes-gcm 0.10): GHASH tag computed over the ciphertext and compared first; buffer untouched on mismatch
        #[verifier::external_body]
        pub fn decrypt_in_place_detached(&self, nonce: &Nonce12, ad: &[u8], buffer: &mut [u8], tag: TagRef<'_>) -> (r: Result<(), AeadError>)
            requires tag.0@.len() == 16
            ensures final(buffer)@.len() == old(buffer)@.len(),
                r is Ok <==> crate::vspec::std_aes256gcm_dec(self.key@, nonce.0@, ad@, old(buffer)@ + tag.0@) is Some,
                r is Ok ==> crate::vspec::std_aes256gcm_dec(self.key@, nonce.0@, ad@, old(buffer)@ + tag.0@) == Some(final(buffer)@),
                r is Err ==> final(buffer)@ == old(buffer)@,
        { unimplemented!() }
    }
    }
}
pub mod sha2 {
    use vstd::prelude::*;
    pub use super::generic::*;
    verus! {
    pub trait Digest {}
    // incremental hashers: `buf` is the ghost concatenation of everything fed since the last reset
    pub struct Sha256 { pub buf: Ghost<Seq<u8>> }
    pub struct Sha512 { pub buf: Ghost<Seq<u8>> }
    impl Default for Sha256 { #[verifier::external_body] fn default() -> (r: Self) ensures r.buf@ == Seq::<u8>::empty() { unimplemented!() } }
    impl Default for Sha512 { #[verifier::external_body] fn default() -> (r: Self) ensures r.buf@ == Seq::<u8>::empty() { unimplemented!() } }
    impl Sha256 {
        #[verifier::external_body] pub fn update(&mut self, data: &[u8]) ensures final(self).buf@ == old(self).buf@ + data@ { unimplemented!() }
        #[verifier::external_body] pub fn finalize_reset(&mut self) -> (r: Out32)
            ensures r.0@ == crate::vspec::std_sha256(old(self).buf@), final(self).buf@ == Seq::<u8>::empty() { unimplemented!() }
    }
    impl Sha512 {
        #[verifier::external_body] pub fn update(&mut self, data: &[u8]) ensures final(self).buf@ == old(self).buf@ + data@ { unimplemented!() }
        #[verifier::external_body] pub fn finalize_reset(&mut self) -> (r: Out64)
            ensures r.0@ == crate::vspec::std_sha512(old(self).buf@), final(self).buf@ == Seq::<u8>::empty() { unimplemented!() }
    }
    }
}
pub mod blake2 {
    use vstd::prelude::*;
    pub use super::generic::*;
    verus! {
    pub trait Digest {}
    pub struct Blake2s256 { pub buf: Ghost<Seq<u8>> }
    pub struct Blake2b512 { pub buf: Ghost<Seq<u8>> }
    pub type Blake2s = Blake2s256;   // blake2::Blake2s<U32> and Blake2s256 are the same type
    pub type Blake2b = Blake2b512;
    impl Default for Blake2s256 { #[verifier::external_body] fn default() -> (r: Self) ensures r.buf@ == Seq::<u8>::empty() { unimplemented!() } }
    impl Default for Blake2b512 { #[verifier::external_body] fn default() -> (r: Self) ensures r.buf@ == Seq::<u8>::empty() { unimplemented!() } }
    impl Blake2s256 {
        #[verifier::external_body] pub fn update(&mut self, data: &[u8]) ensures final(self).buf@ == old(self).buf@ + data@ { unimplemented!() }
        #[verifier::external_body] pub fn finalize_reset(&mut self) -> (r: Out32)
            ensures r.0@ == crate::vspec::std_blake2s(old(self).buf@), final(self).buf@ == Seq::<u8>::empty() { unimplemented!() }
    }
    impl Blake2b512 {
        #[verifier::external_body] pub fn update(&mut self, data: &[u8]) ensures final(self).buf@ == old(self).buf@ + data@ { unimplemented!() }
        #[verifier::external_body] pub fn finalize_reset(&mut self) -> (r: Out64)
            ensures r.0@ == crate::vspec::std_blake2b(old(self).buf@), final(self).buf@ == Seq::<u8>::empty() { unimplemented!() }
    }
    }
}
pub mod curve25519_dalek {
    pub mod montgomery {
        use vstd::prelude::*;
        verus! {
        pub struct MontgomeryPoint(pub [u8; 32]);
        impl MontgomeryPoint {
            #[verifier::external_body]
            pub fn mul_base_clamped(bytes: [u8; 32]) -> (r: MontgomeryPoint) ensures r.0@ == crate::vspec::std_x25519_base(bytes@) { unimplemented!() }
            #[verifier::external_body]
            pub fn mul_clamped(self, bytes: [u8; 32]) -> (r: MontgomeryPoint) ensures r.0@ == crate::vspec::std_x25519(bytes@, self.0@) { unimplemented!() }
            pub fn to_bytes(&self) -> (r: [u8; 32]) ensures r == self.0 { self.0 }
        }
        }
    }
}
pub mod rand_core {
    use vstd::prelude::*;
    verus! {
    pub struct OsRng;
    }
}
}
// ---- p256 0.13 / elliptic-curve 0.13 (feature use-p256): ASSUMED contracts ----
pub mod deps_p256 {
use vstd::prelude::*;
pub mod p256 {
    use vstd::prelude::*;
    verus! {
    pub struct FieldBytes(pub [u8; 32]);
    impl From<[u8; 32]> for FieldBytes { fn from(a: [u8; 32]) -> (r: FieldBytes) ensures r.0 == a { FieldBytes(a) } }
    impl vstd::std_specs::convert::FromSpecImpl<[u8; 32]> for FieldBytes { open spec fn obeys_from_spec() -> bool { true } open spec fn from_spec(v: [u8; 32]) -> Self { FieldBytes(v) } }
    impl core::ops::Deref for FieldBytes { type Target = [u8]; fn deref(&self) -> (r: &[u8]) ensures r@ == self.0@ { &self.0 } }
    pub struct NistP256;
    #[derive(Debug)]
    pub struct EcError;
    // SEC1 encoding held by value: `len` is 65 for an uncompressed point, 1 for the identity (what Default gives)
    pub struct EncodedPoint { pub data: [u8; 65], pub len: usize }
    impl Default for EncodedPoint { #[verifier::external_body] fn default() -> (r: Self) ensures r.len == 1 { unimplemented!() } }
    impl EncodedPoint {
        #[verifier::external_body]
        pub fn as_bytes(&self) -> (r: &[u8]) ensures r@ == self.data@.subrange(0, self.len as int), self.len <= 65 { unimplemented!() }
    }
    pub struct SecretKey { pub sk: [u8; 32] }
    pub struct NonZeroScalar { pub sk: [u8; 32] }
    pub struct AffinePoint { pub enc: Ghost<Seq<u8>> }
    pub struct SharedSecret { pub bytes: FieldBytes }
    pub mod elliptic_curve {
        use vstd::prelude::*;
        pub mod sec1 { pub trait ToEncodedPoint {} }
        verus! {
        pub struct PublicKey<C> { pub enc: Ghost<Seq<u8>>, pub affine: super::AffinePoint, pub c: core::marker::PhantomData<C> }
        }
    }
    pub type PublicKey = elliptic_curve::PublicKey<NistP256>;
    impl SecretKey {
        // assumed: accepts exactly the scalars in [1, n-1]
        #[verifier::external_body]
        pub fn from_bytes(b: &FieldBytes) -> (r: Result<SecretKey, EcError>)
            ensures r is Ok <==> crate::vspec::p256_valid_scalar(b.0@), r matches Ok(k) ==> k.sk == b.0 { unimplemented!() }
        #[verifier::external_body]
        pub fn public_key(&self) -> (r: PublicKey) ensures r.enc@ == crate::vspec::std_p256_pub(self.sk@), r.affine.enc@ == r.enc@ { unimplemented!() }
        #[verifier::external_body]
        pub fn to_nonzero_scalar(&self) -> (r: NonZeroScalar) ensures r.sk == self.sk { unimplemented!() }
    }
    impl elliptic_curve::PublicKey<NistP256> {
        #[verifier::external_body]
        pub fn from_sec1_bytes(b: &[u8]) -> (r: Result<Self, EcError>)
            ensures r is Ok <==> crate::vspec::p256_valid_point(b@), r matches Ok(k) ==> k.enc@ == b@ && k.affine.enc@ == b@ { unimplemented!() }
        // assumed: uncompressed SEC1 encoding, 65 bytes
        #[verifier::external_body]
        pub fn to_encoded_point(&self, compress: bool) -> (r: EncodedPoint)
            ensures !compress ==> r.len == 65 && r.data@ == self.enc@ { unimplemented!() }
        #[verifier::external_body]
        pub fn as_affine(&self) -> (r: &AffinePoint) ensures r.enc@ == self.affine.enc@ { unimplemented!() }
    }
    impl SharedSecret {
        pub fn raw_secret_bytes(&self) -> (r: &FieldBytes) ensures r.0 == self.bytes.0 { &self.bytes }
    }
    pub mod ecdh {
        use vstd::prelude::*;
        verus! {
        #[verifier::external_body]
        pub fn diffie_hellman(sk: super::NonZeroScalar, pk: &super::AffinePoint) -> (r: super::SharedSecret)
            ensures r.bytes.0@ == crate::vspec::std_p256_ecdh(sk.sk@, pk.enc@) { unimplemented!() }
        }
    }
    }
}
}
