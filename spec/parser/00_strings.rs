// Parser unit, part 1: the ASSUMED contracts of the std string functions the parser calls (those vstd does not
// already specify) and the sequence theory of split/join the grammar is stated in.
pub mod pspec {
use vstd::prelude::*;
use vstd::utf8::*;
use vstd::string::StringSliceAdditionalSpecFns;
use vstd::std_specs::cmp::PartialEqSpec;
use core::str::FromStr;
verus! {

// ---------------------------------------------------------------- std contracts (assumed)

//- core::str::FromStr as a specified trait: each impl states its own post-relation
#[verifier::external_trait_specification]
#[verifier::external_trait_extension(FromStrSpec via FromStrSpecImpl)]
pub trait ExFromStr: Sized {
    type ExternalTraitSpecificationFor: core::str::FromStr;
    type Err;
    spec fn from_str_post(s: &str, r: Result<Self, Self::Err>) -> bool;
    fn from_str(s: &str) -> (r: Result<Self, Self::Err>)
        ensures Self::from_str_post(s, r);
}

//- str::parse::<F>() is FromStr::from_str (its std definition)
pub assume_specification<F: FromStr>[str::parse::<F>](s: &str) -> (r: Result<F, F::Err>)
    ensures F::from_str_post(s, r);

#[verifier::external_type_specification]
#[verifier::external_body]
pub struct ExParseIntError(core::num::ParseIntError);

//- <u8 as FromStr>::from_str: optional '+', then one or more decimal digits, value at most 255
pub open spec fn is_digit(c: char) -> bool { '0' <= c <= '9' }
pub open spec fn all_digits(d: Seq<char>) -> bool { forall|i: int| 0 <= i < d.len() ==> is_digit(#[trigger] d[i]) }
pub open spec fn dec_val(d: Seq<char>) -> nat
    decreases d.len()
{
    if d.len() == 0 { 0 } else { dec_val(d.drop_last()) * 10 + (d.last() as nat - '0' as nat) as nat }
}
pub open spec fn unsigned_lit(t: Seq<char>) -> Seq<char> { if t.len() > 0 && t[0] == '+' { t.subrange(1, t.len() as int) } else { t } }
pub open spec fn is_u8_lit(t: Seq<char>, n: u8) -> bool {
    let d = unsigned_lit(t);
    d.len() > 0 && all_digits(d) && dec_val(d) == n as nat
}
impl FromStrSpecImpl for u8 {
    open spec fn from_str_post(s: &str, r: Result<u8, core::num::ParseIntError>) -> bool {
        match r { Ok(n) => is_u8_lit(s@, n), Err(_) => forall|n: u8| !is_u8_lit(s@, n) }
    }
}

//- indexing a str by a range: the sub-slice (vstd gives the precondition - in range, on char boundaries - but no postcondition)
pub assume_specification<I: core::slice::SliceIndex<str>>[<str as core::ops::Index<I>>::index](s: &str, i: I) -> (r: &I::Output)
    ensures vstd::slice::SliceIndexSpec::index_postcondition(&i, s, r);

//- <[T]>::contains
pub assume_specification<T: PartialEq>[<[T]>::contains](s: &[T], x: &T) -> (r: bool)
    ensures T::obeys_eq_spec() ==> r == exists|i: int| 0 <= i < s@.len() && #[trigger] s@[i].eq_spec(x);

//- a str's byte length fits usize (type invariant of str)
#[verifier::external_body]
pub proof fn ax_str_len_fits(s: &str)
    ensures s.spec_bytes().len() <= usize::MAX
{}

//- vstd's broadcast lemma about `.rev()` restated for RangeInclusive<usize> (it is not instantiated automatically in every module context)
pub proof fn lemma_rev_range_usize()
    ensures forall|rg: core::ops::RangeInclusive<usize>| vstd::std_specs::iter::IteratorSpec::obeys_prophetic_iter_laws(&rg) && vstd::std_specs::iter::rev_post(rg, #[trigger] vstd::std_specs::iter::into_rev_spec(rg)) ==>
            (vstd::std_specs::iter::IteratorSpec::decrease(&vstd::std_specs::iter::into_rev_spec(rg)) is Some) == (vstd::std_specs::iter::IteratorSpec::decrease(&rg) is Some)
            && vstd::std_specs::iter::IteratorSpec::remaining(&vstd::std_specs::iter::into_rev_spec(rg)) == vstd::std_specs::iter::IteratorSpec::remaining(&rg).reverse()
            && vstd::std_specs::iter::IteratorSpec::will_return_none(&vstd::std_specs::iter::into_rev_spec(rg)) == vstd::std_specs::iter::IteratorSpec::will_return_none(&rg),
{
    assert forall|rg: core::ops::RangeInclusive<usize>| vstd::std_specs::iter::IteratorSpec::obeys_prophetic_iter_laws(&rg) && vstd::std_specs::iter::rev_post(rg, #[trigger] vstd::std_specs::iter::into_rev_spec(rg)) implies
            (vstd::std_specs::iter::IteratorSpec::decrease(&vstd::std_specs::iter::into_rev_spec(rg)) is Some) == (vstd::std_specs::iter::IteratorSpec::decrease(&rg) is Some)
            && vstd::std_specs::iter::IteratorSpec::remaining(&vstd::std_specs::iter::into_rev_spec(rg)) == vstd::std_specs::iter::IteratorSpec::remaining(&rg).reverse()
            && vstd::std_specs::iter::IteratorSpec::will_return_none(&vstd::std_specs::iter::into_rev_spec(rg)) == vstd::std_specs::iter::IteratorSpec::will_return_none(&rg)
    by { vstd::std_specs::iter::rev_postcondition(rg); }
}

// ---------------------------------------------------------------- split / join on sequences of chars

pub open spec fn is_prefix(p: Seq<char>, s: Seq<char>) -> bool { p.len() <= s.len() && s.subrange(0, p.len() as int) == p }

pub open spec fn no_char(s: Seq<char>, c: char) -> bool { forall|i: int| 0 <= i < s.len() ==> s[i] != c }

//- index of the first occurrence of c (s.len() if none)
pub open spec fn find(s: Seq<char>, c: char) -> int
    decreases s.len()
{
    if s.len() == 0 { 0 } else if s[0] == c { 0 } else { 1 + find(s.drop_first(), c) }
}

//- what str::split(c) yields: the maximal c-free pieces, in order (always at least one)
pub open spec fn split_on(s: Seq<char>, c: char) -> Seq<Seq<char>>
    decreases s.len()
{
    let j = find(s, c);
    if j < 0 || j >= s.len() { seq![s] } else { seq![s.subrange(0, j)] + split_on(s.subrange(j + 1, s.len() as int), c) }
}

pub open spec fn join(ps: Seq<Seq<char>>, c: char) -> Seq<char>
    decreases ps.len()
{
    if ps.len() == 0 { Seq::empty() } else if ps.len() == 1 { ps[0] } else { ps[0] + seq![c] + join(ps.drop_first(), c) }
}

pub open spec fn strs_view(v: Seq<&str>) -> Seq<Seq<char>> { Seq::new(v.len(), |i: int| v[i]@) }

pub proof fn lemma_find(s: Seq<char>, c: char)
    ensures 0 <= find(s, c) <= s.len(), no_char(s.subrange(0, find(s, c)), c), find(s, c) < s.len() ==> s[find(s, c)] == c,
    decreases s.len()
{
    if s.len() == 0 {
    } else if s[0] == c {
    } else {
        lemma_find(s.drop_first(), c);
        let j = find(s.drop_first(), c);
        assert forall|i: int| 0 <= i < 1 + j implies #[trigger] s.subrange(0, 1 + j)[i] != c by {
            if i > 0 { assert(s.drop_first().subrange(0, j)[i - 1] != c); }
        }
    }
}

pub proof fn lemma_find_unique(s: Seq<char>, c: char, j: int)
    requires 0 <= j <= s.len(), no_char(s.subrange(0, j), c), j < s.len() ==> s[j] == c,
    ensures find(s, c) == j,
    decreases s.len()
{
    if s.len() == 0 {
    } else if j == 0 {
    } else {
        assert(s.subrange(0, j)[0] != c);
        assert forall|i: int| 0 <= i < j - 1 implies #[trigger] s.drop_first().subrange(0, j - 1)[i] != c by {
            assert(s.subrange(0, j)[i + 1] != c);
        }
        lemma_find_unique(s.drop_first(), c, j - 1);
    }
}

//- splitting yields c-free pieces that join back to the string
pub proof fn lemma_join_split(s: Seq<char>, c: char)
    ensures
        split_on(s, c).len() >= 1,
        join(split_on(s, c), c) == s,
        forall|i: int| 0 <= i < split_on(s, c).len() ==> no_char(#[trigger] split_on(s, c)[i], c),
    decreases s.len()
{
    lemma_find(s, c);
    let j = find(s, c);
    if j >= s.len() {
        assert(s.subrange(0, j) == s);
    } else {
        let rest = s.subrange(j + 1, s.len() as int);
        lemma_join_split(rest, c);
        let ps = split_on(s, c);
        assert(ps.drop_first() == split_on(rest, c));
        assert(ps[0] == s.subrange(0, j));
        assert(join(ps, c) == s.subrange(0, j) + seq![c] + rest);
        assert(s.subrange(0, j) + seq![c] + rest =~= s);
        assert forall|i: int| 0 <= i < ps.len() implies no_char(#[trigger] ps[i], c) by {
            if i > 0 { assert(ps[i] == split_on(rest, c)[i - 1]); }
        }
    }
}

//- joining c-free pieces and splitting again gives the pieces back
pub proof fn lemma_split_join(ps: Seq<Seq<char>>, c: char)
    requires ps.len() >= 1, forall|i: int| 0 <= i < ps.len() ==> no_char(#[trigger] ps[i], c),
    ensures split_on(join(ps, c), c) == ps,
    decreases ps.len()
{
    if ps.len() == 1 {
        let s = ps[0];
        assert(s.subrange(0, s.len() as int) == s);
        lemma_find_unique(s, c, s.len() as int);
        assert(split_on(s, c) == seq![s]);
        assert(seq![s] =~= ps);
    } else {
        let tail = ps.drop_first();
        assert forall|i: int| 0 <= i < tail.len() implies no_char(#[trigger] tail[i], c) by { assert(tail[i] == ps[i + 1]); }
        lemma_split_join(tail, c);
        let s = ps[0] + seq![c] + join(tail, c);
        let j = ps[0].len() as int;
        assert(s.subrange(0, j) =~= ps[0]);
        assert(s[j] == c);
        lemma_find_unique(s, c, j);
        assert(s.subrange(j + 1, s.len() as int) =~= join(tail, c));
        assert(split_on(s, c) == seq![ps[0]] + split_on(join(tail, c), c));
        assert(seq![ps[0]] + tail =~= ps);
    }
}

//- a join of '+'/'_'-free pieces contains the separator iff there is more than one piece; and no other char c2 that the pieces lack
pub proof fn lemma_join_no_char(ps: Seq<Seq<char>>, c: char, c2: char)
    requires c2 != c, forall|i: int| 0 <= i < ps.len() ==> no_char(#[trigger] ps[i], c2),
    ensures no_char(join(ps, c), c2),
    decreases ps.len()
{
    if ps.len() == 0 {
    } else if ps.len() == 1 {
    } else {
        let tail = ps.drop_first();
        assert forall|i: int| 0 <= i < tail.len() implies no_char(#[trigger] tail[i], c2) by { assert(tail[i] == ps[i + 1]); }
        lemma_join_no_char(tail, c, c2);
        assert(no_char(ps[0], c2));
    }
}

// ---------------------------------------------------------------- chars <-> UTF-8 bytes (vstd::utf8 theory)

//- a position preceded only by ASCII bytes is a char boundary (unfolds vstd's definition byte by byte)
pub proof fn lemma_ascii_prefix_boundary(b: Seq<u8>, k: int)
    requires valid_utf8(b), 0 <= k <= b.len(), forall|j: int| 0 <= j < k ==> b[j] <= 127,
    ensures is_char_boundary(b, k),
    decreases k
{
    if k > 0 {
        let t = b.subrange(1, b.len() as int);
        assert forall|j: int| 0 <= j < k - 1 implies t[j] <= 127 by { assert(t[j] == b[j + 1]); }
        assert(is_leading_byte_width_1(b[0]));
        assert(length_of_first_scalar(b) == 1);
        assert(pop_first_scalar(b) == t);
        assert(valid_utf8(t));
        lemma_ascii_prefix_boundary(t, k - 1);
    }
}

//- a string whose first k chars are ASCII: its bytes split at k into the encodings of the two parts, and k is a boundary
pub proof fn lemma_ascii_prefix_split(s: Seq<char>, k: int)
    requires 0 <= k <= s.len(), is_ascii_chars(s.subrange(0, k)),
    ensures ({
        let b = encode_utf8(s);
        &&& valid_utf8(b)
        &&& b.len() >= k
        &&& is_char_boundary(b, k)
        &&& is_char_boundary(b, b.len() as int)
        &&& is_char_boundary(b, 0)
        &&& b.subrange(0, k) == encode_utf8(s.subrange(0, k))
        &&& b.subrange(k, b.len() as int) == encode_utf8(s.subrange(k, s.len() as int))
        &&& forall|j: int| 0 <= j < k ==> b[j] == s[j] as u8
    }),
{
    let a = s.subrange(0, k);
    let r = s.subrange(k, s.len() as int);
    let b = encode_utf8(s);
    assert(s =~= a + r);
    encode_utf8_concat(a, r);
    is_ascii_chars_encode_utf8(a);
    encode_utf8_valid_utf8(s);
    is_char_boundary_start_end_of_seq(b);
    assert(b.subrange(0, k) =~= encode_utf8(a));
    assert(b.subrange(k, b.len() as int) =~= encode_utf8(r));
    assert forall|j: int| 0 <= j < k implies b[j] == s[j] as u8 && b[j] <= 127 by {
        assert(encode_utf8(a)[j] == a[j] as u8);
        assert(0 <= a[j] as int <= 0x7f);
    }
    lemma_ascii_prefix_boundary(b, k);
}

//- UTF-8 encoding is injective
pub proof fn lemma_encode_inj(a: Seq<char>, b: Seq<char>)
    requires encode_utf8(a) == encode_utf8(b),
    ensures a == b,
{
    encode_utf8_decode_utf8(a);
    encode_utf8_decode_utf8(b);
}

//- cutting a str's bytes at a char boundary cuts its chars: s == left + right
pub proof fn lemma_cut(s: Seq<char>, l: Seq<char>, r: Seq<char>, k: int)
    requires 0 <= k <= encode_utf8(s).len(), encode_utf8(l) == encode_utf8(s).subrange(0, k), encode_utf8(r) == encode_utf8(s).subrange(k, encode_utf8(s).len() as int),
    ensures s == l + r,
{
    encode_utf8_concat(l, r);
    assert(encode_utf8(s) =~= encode_utf8(l) + encode_utf8(r));
    lemma_encode_inj(s, l + r);
}

} // verus!
}
