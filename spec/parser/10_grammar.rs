// Parser unit, part 2: the Noise protocol-name grammar (Noise rev 34 section 8) as predicates over char sequences.
pub mod pgram {
use vstd::prelude::*;
use crate::pspec::*;
use crate::params::{BaseChoice, DHChoice, CipherChoice, HashChoice, HandshakePattern, HandshakeModifier};
verus! {

//@GENERATED-PATTERN-NAMES@

// ---------------------------------------------------------------- primitive names (Noise rev 34 section 12; XChaChaPoly/P256 are snow extensions)
pub open spec fn dh_name(d: DHChoice) -> Seq<char> {
    match d {
        DHChoice::Curve25519 => seq!['2', '5', '5', '1', '9'],
        DHChoice::Curve448 => seq!['4', '4', '8'],
        #[cfg(feature = "p256")]
        DHChoice::P256 => seq!['P', '2', '5', '6'],
    }
}
pub open spec fn cipher_name(c: CipherChoice) -> Seq<char> {
    match c {
        CipherChoice::ChaChaPoly => seq!['C', 'h', 'a', 'C', 'h', 'a', 'P', 'o', 'l', 'y'],
        #[cfg(feature = "use-xchacha20poly1305")]
        CipherChoice::XChaChaPoly => seq!['X', 'C', 'h', 'a', 'C', 'h', 'a', 'P', 'o', 'l', 'y'],
        CipherChoice::AESGCM => seq!['A', 'E', 'S', 'G', 'C', 'M'],
    }
}
pub open spec fn hash_name(h: HashChoice) -> Seq<char> {
    match h {
        HashChoice::SHA256 => seq!['S', 'H', 'A', '2', '5', '6'],
        HashChoice::SHA512 => seq!['S', 'H', 'A', '5', '1', '2'],
        HashChoice::Blake2s => seq!['B', 'L', 'A', 'K', 'E', '2', 's'],
        HashChoice::Blake2b => seq!['B', 'L', 'A', 'K', 'E', '2', 'b'],
    }
}
pub open spec fn base_name() -> Seq<char> { seq!['N', 'o', 'i', 's', 'e'] }
pub open spec fn psk_word() -> Seq<char> { seq!['p', 's', 'k'] }
pub open spec fn fallback_word() -> Seq<char> { seq!['f', 'a', 'l', 'l', 'b', 'a', 'c', 'k'] }

// ---------------------------------------------------------------- modifiers
//- one modifier word: "fallback", or "psk" followed by a u8 literal
pub open spec fn is_mod_tok(t: Seq<char>, m: HandshakeModifier) -> bool {
    match m {
        HandshakeModifier::Fallback => t == fallback_word(),
        HandshakeModifier::Psk(n) => is_prefix(psk_word(), t) && is_u8_lit(t.subrange(3, t.len() as int), n),
    }
}
pub open spec fn no_dup(ms: Seq<HandshakeModifier>) -> bool { forall|i: int, j: int| 0 <= i < j < ms.len() ==> ms[i] != ms[j] }
//- the modifier part of a name: empty, or '+'-separated modifier words naming pairwise different modifiers
pub open spec fn is_modlist(t: Seq<char>, ms: Seq<HandshakeModifier>) -> bool {
    if t.len() == 0 { ms.len() == 0 } else {
        let toks = split_on(t, '+');
        toks.len() == ms.len() && no_dup(ms) && forall|i: int| 0 <= i < ms.len() ==> is_mod_tok(#[trigger] toks[i], ms[i])
    }
}
//- <pattern><modifiers>
pub open spec fn is_handshake(t: Seq<char>, p: HandshakePattern, ms: Seq<HandshakeModifier>) -> bool {
    is_prefix(pat_name(p), t) && is_modlist(t.subrange(pat_name(p).len() as int, t.len() as int), ms)
}
//- Noise_<pattern><modifiers>_<dh>_<cipher>_<hash>
pub open spec fn is_noise_name(t: Seq<char>, p: HandshakePattern, ms: Seq<HandshakeModifier>, d: DHChoice, c: CipherChoice, h: HashChoice) -> bool {
    let f = split_on(t, '_');
    f.len() == 5 && f[0] == base_name() && is_handshake(f[1], p, ms) && f[2] == dh_name(d) && f[3] == cipher_name(c) && f[4] == hash_name(h)
}

} // verus!
}
